"""M2 scenarios with pallets: sources -> Combiner -> buffer -> Splitter -> sinks  (C16, plus C03/C08/C17/C20 parts)."""
from __future__ import annotations

from . import symx
from .m2 import Factory, BIG, mon_capacity
from .m2s import _edge, _policy


def c16_step(F):
    """after every kernel event: check what combiners and splitters put on their out-edges"""
    ctx = F.ctx
    for ev in F.events[getattr(F, "_c16_seen", 0):]:
        kind, t, e, n = ev[0], ev[1], ev[2], ev[3]
        if n is None:
            continue
        cls = n.__class__.__name__
        if cls == "Combiner":
            book = F.comb.setdefault(n.id, {"cur": None, "by_pallet": {}})
            if kind == "get":
                idx = next(i for i, x in enumerate(n.in_edges) if x is e)
                if idx == 0:
                    # a pallet may arrive loaded (two-stage packing): what it carries on arrival must still be on it when it leaves
                    st = {"pallet": ev[4].obj, "t_pallet": t, "got": [], "open": True, "preload": list(ev[6])}
                    book["cur"] = st
                    book["by_pallet"][id(ev[4].obj)] = st
                    if not hasattr(ev[4].obj, "items"):
                        F.soft("C16:combiner-took-a-non-pallet-from-its-first-in-edge", {})
                else:
                    st = book["cur"]
                    if st is None or len(st["got"]) >= sum(n.target_quantity_of_each_item[1:]):
                        F.soft("C16:combiner-took-an-ingredient-before-taking-a-pallet", {"edge": e.id})
                        continue
                    st["got"].append((idx, ev[4].obj))
            elif kind == "put":
                obj = ev[4].obj
                contents = list(ev[6])
                ctx.hit("C16:combiner-output-checked")
                st = book["by_pallet"].get(id(obj))
                if st is None:
                    F.soft("C16:combiner-output-is-not-the-pallet-taken-from-in-edge-0", {"out": repr(obj)})
                    continue
                if not st["open"]:
                    F.soft("C16:combiner-emitted-the-same-pallet-twice", {"out": repr(obj)})
                recipe = n.target_quantity_of_each_item
                for i in range(1, len(n.in_edges)):
                    have = [x for x in contents if any(x is o and j == i for j, o in st["got"])]
                    if len(have) != recipe[i]:
                        F.soft("C16:pallet-carries-%s-items-of-an-ingredient-than-the-recipe-says" % ("more" if len(have) > recipe[i] else "fewer"),
                               {"edge": i, "have": len(have), "recipe": recipe[i]})
                pre = st.get("preload", [])
                foreign = [x for x in contents if not any(x is o for _, o in st["got"]) and not any(x is o for o in pre)]
                if foreign:
                    F.soft("C16:pallet-carries-items-not-taken-for-it", {"n": len(foreign)})
                lost = [o for o in pre if not any(o is x for x in contents)]
                if lost:
                    F.soft("C16:pallet-lost-items-it-carried-when-it-arrived", {"n": len(lost)})
                if len(contents) != len(st["got"]) + len(pre):
                    F.soft("C16:ingredients-taken-but-not-packed", {"taken": len(st["got"]), "carried_on_arrival": len(pre), "packed": len(contents)})
                st["open"] = False
                # C08 for the combiner: emission no earlier than last ingredient (or pallet) pulled + processing delay
                d = F.unit_delay.get(n.id)
                if d is not None:
                    t_last = st["t_pallet"]
                    for _, o in st["got"]:
                        tl = F.rec(o).hist[-1][1] if False else None
                    pulls = [F.rec(o).pulls[-1]["t"] for _, o in st["got"]] + [st["t_pallet"]]
                    for tp in pulls:
                        if ctx.lt(t_last, tp):
                            t_last = tp
                    ctx.hit("C08:combiner-residence-checked")
                    if ctx.lt(t, t_last + d):
                        F.soft("C08:combiner-emitted-before-its-processing-delay-elapsed", {})
                    prev = book.get("t_prev_emit")
                    if prev is not None and ctx.lt(t, prev + d):
                        # the single unit of work capacity: packing the next pallet may only start when the previous one has left
                        F.soft("C08:combiner-worked-on-two-pallets-at-once", {})
                    book["t_prev_emit"] = t
        elif cls == "Splitter":
            st = F.split.setdefault(n.id, {"pallet": None, "todo": [], "emitted": [], "t": None, "done": True})
            if kind == "get":
                if not st["done"]:
                    dropped = n.stats["num_item_discarded"] - st.get("drops_at_start", 0)
                    if len(st["todo"]) + 1 - dropped != 0:
                        F.soft("C16:splitter-took-a-new-pallet-before-emitting-the-previous-one-completely", {"left": len(st["todo"]), "dropped": dropped})
                        F.soft("C08:splitter-holds-more-than-one-unit-of-work", {"left": len(st["todo"]), "dropped": dropped})
                prev_done = st.get("t_done")
                st["pallet"], st["todo"], st["emitted"], st["t"], st["done"] = ev[4].obj, list(ev[6]), [], t, False
                st["t_prev_done"] = prev_done
                st["drops_at_start"] = n.stats["num_item_discarded"]
            elif kind == "put":
                obj = ev[4].obj
                ctx.hit("C16:splitter-output-checked")
                d = F.unit_delay.get(n.id)
                if d is not None and st["t"] is not None and ctx.lt(t, st["t"] + d):
                    F.soft("C08:splitter-emitted-before-its-processing-delay-elapsed", {})
                if d is not None and st.get("t_prev_done") is not None and not st["emitted"] and obj is not st["pallet"] and ctx.lt(t, st["t_prev_done"] + d):
                    F.soft("C08:splitter-worked-on-two-pallets-at-once", {})
                if obj is st["pallet"]:
                    dropped = n.stats["num_item_discarded"] - st.get("drops_at_start", 0)
                    if len(st["todo"]) - dropped > 0:
                        F.soft("C16:splitter-emitted-the-pallet-before-all-of-its-items", {"left": len(st["todo"]), "dropped": dropped})
                    if len(ev[6]) != 0:
                        F.soft("C16:splitter-emitted-a-pallet-that-is-not-empty", {"n": len(ev[6])})
                    st["done"] = True
                    st["t_done"] = t
                elif any(obj is x for x in st["todo"]):
                    st["todo"] = [x for x in st["todo"] if x is not obj]
                    st["emitted"].append(obj)
                elif any(obj is x for x in st["emitted"]):
                    F.soft("C16:splitter-emitted-an-item-twice", {"item": repr(obj)})
                else:
                    F.soft("C16:splitter-emitted-something-that-was-not-in-the-pallet", {"item": repr(obj)})
    F._c16_seen = len(F.events)


def c16_final(F):
    for nid, st in F.split.items():
        n = next(x for x in F.nodes if x.id == nid)
        if not st["done"] and st["pallet"] is not None:
            dropped = n.stats["num_item_discarded"] - st.get("drops_at_start", 0)
            # at quiescence with sinks behind every out-edge everything must have been emitted (or dropped and counted)
            if len(st["todo"]) + 1 - dropped != 0:
                F.soft("C16:splitter-did-not-finish-a-pallet", {"left": len(st["todo"]), "dropped": dropped})


def pk_conservation(F):
    """C03 counting identity with pallets at the end of every instant (counters and real edge contents)"""
    F.ctx.hit("C03:checked")
    gen = sum(n.stats["num_item_generated"] for n in F.nodes if n.__class__.__name__ == "Source")
    disc = sum(n.stats.get("num_item_discarded", 0) for n in F.nodes if n.__class__.__name__ != "Sink")
    recv = 0
    packed_recv = 0
    for r in F.items.values():
        if r.loc is not None and r.loc[0] == "sink":
            recv += 1
    in_edges = sum(1 for r in F.items.values() if r.loc is not None and r.loc[0] == "edge")
    for e in F.edges:
        s = F.store_of(e)
        real = len(s.items) + len(getattr(s, "ready_items", []))
        if real != F.occupancy(e):
            F.soft("C03:edge-content-differs-from-ledger", {"edge": e.id, "real": real, "ledger": F.occupancy(e)})
    in_nodes = sum(1 for r in F.items.values() if r.loc is not None and r.loc[0] == "node")
    packed = sum(1 for r in F.items.values() if r.loc is not None and r.loc[0] == "pallet")
    # "packed in exactly one pallet": while a pallet travels (it is in an edge or was received by a sink) everything the ledger packed on it is
    # really on it (Pallet.items), and on no other pallet
    for r in F.items.values():
        if r.loc is not None and r.loc[0] == "pallet":
            P = F.rec(r.loc[1])
            if P.loc is not None and P.loc[0] in ("edge", "sink") and not any(r.obj is x for x in getattr(P.obj, "items", [])):
                F.soft("C03:packed-item-is-no-longer-on-its-pallet", {"item": repr(r.obj), "pallet": repr(P.obj)})
            for Q in F.items.values():
                if Q is not P and hasattr(Q.obj, "items") and Q.loc is not None and Q.loc[0] in ("edge", "sink") and any(r.obj is x for x in Q.obj.items):
                    F.soft("C03:item-packed-on-two-pallets", {"item": repr(r.obj)})
    seen = sum(1 for r in F.items.values() if r.loc is not None)
    at_sources = gen - sum(1 for r in F.items.values() if r.src is not None and r.src.__class__.__name__ == "Source") - \
        sum(n.stats["num_item_discarded"] for n in F.nodes if n.__class__.__name__ == "Source")
    if at_sources < 0 or at_sources > sum(1 for n in F.nodes if n.__class__.__name__ == "Source"):
        F.soft("C03:sources-hold-%d-items" % at_sources, {})
    sink_cnt = sum(n.stats["num_item_received"] for n in F.nodes if n.__class__.__name__ == "Sink")
    if sink_cnt != recv:
        F.soft("C03:received-counter-differs-from-items-absorbed", {"counter": sink_cnt, "absorbed": recv})
    node_disc = sum(n.stats.get("num_item_discarded", 0) for n in F.nodes if n.__class__.__name__ not in ("Sink", "Source"))
    # items dropped by splitters/combiners are those the ledger still places in the node (or its pallet) - they cannot be told apart from
    # items in hand, so the identity is checked as an inequality here and exactly at quiescence
    if in_nodes + packed < node_disc:
        F.soft("C03:more-discards-counted-than-items-inside-nodes", {"in_nodes": in_nodes, "packed": packed, "discards": node_disc})


def pk(props=("C16", "C03"), recipe=(1, 1), n_pallets=2, blocking=True, split_out=1, split_sel="FIRST_AVAILABLE", sym=("ip", "ii", "pd"), comb_cap=2,
       until=None, twin=False, split_blocking=None, item_cap=2, mid_cap=1, out_cap=1, out_delay=0, comb_only=False, split_pd="sym", setup=0,
       mid_mode="FIFO", split_sd_hi=3, split_in_sel="FIRST_AVAILABLE", item_delay=0, item_mode="FIFO", src_sel=0, no_combiner=False, split_quantity=None, out_kind="buffer", mid_kind="buffer", conv_kw=None, comb_out_sel="FIRST_AVAILABLE", recipe2=None, second_feed=False):
    """pallet source + item source(s) -> Combiner(recipe) -> MID -> Splitter -> OUT_j -> sinks"""
    def fn(ctx):
        from factorysimpy.nodes.source import Source
        from factorysimpy.nodes.sink import Sink
        from factorysimpy.nodes.combiner import Combiner
        from factorysimpy.nodes.splitter import Splitter
        F = Factory(ctx, props)
        env = F.env
        F.edge_delays = {}
        F.sel_answers = {}
        F.sel_moves = {}
        F.routing = {}
        F.last_out_choice = {}
        F.src_gaps = {}
        F.comb = {}
        F.split = {}
        F.unit_delay = {}
        n_ing = len(recipe) - 1
        ip = ctx.real("ip", 0.5, 3) if "ip" in sym else 1
        ii = [ctx.real("ii", 0.25, 3) if "ii" in sym else 1 for _ in range(n_ing)]
        pd = ctx.real("pd", 0, 3) if "pd" in sym else 1
        sd = ctx.real("sd", 0, split_sd_hi) if split_pd == "sym" and "sd" in sym else 1
        od = ctx.real("od", 0, 3) if out_delay in ("sym", "sym-first") else out_delay
        if out_delay == "sym-each":
            # a fresh symbolic delay for every object entering the edge (a consumer that is sometimes slow, sometimes fast)
            od = F.delay_source("MIDDELAY", [ctx.real("od", 0, 4) for _ in range(n_pallets)], "generator", after=0)
        need = [recipe[i + 1] * n_pallets for i in range(n_ing)]
        comb = None if no_combiner else F.add_node(Combiner(env, "CMB", target_quantity_of_each_item=list(recipe), processing_delay=F.delay_source("CMB", [pd] * (n_pallets + 1), "callable", after=1),
                                   blocking=blocking, node_setup_time=setup, out_edge_selection=comb_out_sel))
        F.unit_delay["CMB"] = pd
        sp = F.add_node(Source(env, "SP", flow_item_type="pallet", inter_arrival_time=F.delay_source("SP", [ip] * n_pallets, "generator"), blocking=True, out_edge_selection=src_sel))
        if not no_combiner:
            ep = _edge(F, "buffer", "BP", comb_cap, 0)
            ep.connect(sp, comb)
        for i in range(0 if no_combiner else n_ing):
            si = F.add_node(Source(env, f"SI{i}", inter_arrival_time=F.delay_source(f"SI{i}", [ii[i]] * max(need[i], 1), "generator"), blocking=True, out_edge_selection=src_sel))
            idl = ctx.real("idl", 0, 2) if (item_delay == "sym-last" and i == n_ing - 1) else (0 if item_delay == "sym-last" else item_delay)
            ei = _edge(F, "buffer", f"BI{i}", item_cap, idl, mode=item_mode)
            ei.connect(si, comb)
        if recipe2 is not None:
            # two-stage packing: the loaded pallets of CMB feed the pallet in-edge of a second combiner with its own ingredient source(s)
            pd2 = ctx.real("pd2", 0, 3) if "pd" in sym else 1
            comb2 = F.add_node(Combiner(env, "CMB2", target_quantity_of_each_item=list(recipe2), processing_delay=F.delay_source("CMB2", [pd2] * (n_pallets + 1), "callable", after=1),
                                        blocking=blocking, node_setup_time=setup))
            F.unit_delay["CMB2"] = pd2
            e12 = _edge(F, "buffer", "STAGE", mid_cap, 0)
            e12.connect(comb, comb2)
            for i in range(len(recipe2) - 1):
                ij = ctx.real("ij", 0.25, 3) if "ii" in sym else 1
                sj = F.add_node(Source(env, f"SJ{i}", inter_arrival_time=F.delay_source(f"SJ{i}", [ij] * max(recipe2[i + 1] * n_pallets, 1), "generator"), blocking=True, out_edge_selection=src_sel))
                ej = _edge(F, "buffer", f"BJ{i}", item_cap, 0, mode=item_mode)
                ej.connect(sj, comb2)
            comb = comb2
        sinks = []
        if comb_only:
            k = F.add_node(Sink(env, "K0"))
            sinks.append(k)
            em = _edge(F, "buffer", "MID", mid_cap, od)
            em.connect(comb, k)
        else:
            spl = F.add_node(Splitter(env, "SPL", split_quantity=split_quantity, processing_delay=F.delay_source("SPL", [sd] * (n_pallets + 1), "callable", after=1),
                                      blocking=blocking if split_blocking is None else split_blocking,
                                      in_edge_selection=(_policy(F, ctx, "SPL", "in", split_in_sel, 2, 2 * n_pallets) if second_feed else split_in_sel),
                                      out_edge_selection=_policy(F, ctx, "SPL", "out", split_sel, split_out, 0), node_setup_time=setup))
            F.unit_delay["SPL"] = sd
            em = _edge(F, mid_kind, "MID", mid_cap, 0, **(dict(conv_kw or {}, mode=mid_mode) if mid_kind == "buffer" else (conv_kw or {})))
            em.connect(sp if no_combiner else comb, spl)
            if second_feed:
                # a second pallet source feeding the splitter directly: the splitter has two in-edges and has to choose between them
                ip2 = ctx.real("ip2", 0.5, 3) if "ip" in sym else 1
                sp2 = F.add_node(Source(env, "SP2", flow_item_type="pallet", inter_arrival_time=F.delay_source("SP2", [ip2] * n_pallets, "generator"), blocking=True, out_edge_selection=src_sel))
                em2 = _edge(F, "buffer", "MID2", mid_cap, 0)
                em2.connect(sp2, spl)
            for j in range(split_out):
                k = F.add_node(Sink(env, f"K{j}"))
                sinks.append(k)
                # "sym-first": only the first out-edge is slow (congestion on some out-edges only)
                eo = _edge(F, out_kind, f"OUT{j}", out_cap, (od if j == 0 else 0) if out_delay == "sym-first" else od, **(conv_kw or {}))
                eo.connect(spl, k)
        F.step_hooks.append(mon_capacity)
        if "C16" in F.props or "C08" in F.props:
            F.step_hooks.append(c16_step)
        if "C03" in F.props:
            F.instant_hooks.append(pk_conservation)
        if "C15" in F.props:
            from .m2s import c15_step
            F.discards = lambda n: n.stats.get("num_item_discarded", 0)
            F.step_hooks.append(c15_step)
        if "C09" in F.props:
            from .m2s import c09_step, c09_instant
            F.step_hooks.append(c09_step)
            F.instant_hooks.append(c09_instant)
        Tend = until
        if until == "sym":
            Tend = ctx.real("T", 0.25, 10)
        F.run(until=Tend)
        if "C15" in F.props:
            from .m2s import c15_final
            c15_final(F)
        if until is None:
            if "C10" in F.props:
                from .m2s import c10_quiescence
                c10_quiescence(F)
            if "C16" in F.props:
                c16_final(F)
            if "C03" in F.props:
                gen = sum(n.stats["num_item_generated"] for n in F.nodes if n.__class__.__name__ == "Source")
                disc = sum(n.stats.get("num_item_discarded", 0) for n in F.nodes if n.__class__.__name__ != "Sink")
                recv = sum(n.stats["num_item_received"] for n in F.nodes if n.__class__.__name__ == "Sink")
                packed_in_sink = sum(1 for r in F.items.values() if r.loc is not None and r.loc[0] == "pallet" and F.rec(r.loc[1]).loc is not None and F.rec(r.loc[1]).loc[0] == "sink")
                # ... or loaded on a pallet that never left its node: if a non-blocking node dropped that pallet, the pallet is the counted discard and
                # its load (read from the real Pallet.items) goes with it - drops are not located in this scenario; if the pallet is merely stuck,
                # it is itself unaccounted and the identity below still fails
                for P in F.items.values():
                    if P.loc is not None and P.loc[0] in ("node", "discarded") and hasattr(P.obj, "items"):
                        packed_in_sink += sum(1 for r in F.items.values() if r is not P and r.loc is not None and r.loc[0] in ("node", "pallet", "discarded")
                                              and any(r.obj is x for x in P.obj.items))
                F.ctx.hit("C03:quiescence-checked")
                if gen != disc + recv + packed_in_sink:
                    F.soft("C03:items-left-behind-at-quiescence", {"generated": gen, "discarded": disc, "received": recv, "packed_and_received": packed_in_sink})
        else:
            if "C17" in F.props:
                c17_pk(F, Tend)
            if "C18" in F.props:
                from .m2s import c18_final
                c18_final(F, Tend)
        ctx.log("recv", tuple(k.stats["num_item_received"] for k in sinks))
        ctx.hit("complete")
        if twin:
            ctx.fail("TWIN:reached-end")
    return fn


def c17_pk(F, T):
    """state-time accounting of Splitter / Combiner after finalisation at T"""
    ctx = F.ctx
    for n in F.nodes:
        cls = n.__class__.__name__
        if cls not in ("Splitter", "Combiner"):
            continue
        try:
            n.update_final_state_time(T)
        except symx.PathStop:
            raise
        except Exception as e:
            F.soft(f"C17:update_final_state_time-raised-{type(e).__name__}@{cls}", {"msg": str(e)[:120]})
            continue
        tot = n.stats["total_time_spent_in_states"]
        ctx.hit("C17:finalised@" + cls)
        s = 0
        for k, v in tot.items():
            s = s + v
            if ctx.lt(v, 0):
                F.soft(f"C17:negative-time-in-{k}@{cls}", {})
        if not ctx.eq(s, T):
            F.soft(f"C17:state-times-do-not-add-up-to-T@{cls}", {})
        setup = n.node_setup_time
        exp_setup = setup if ctx.le(setup, T) else T
        if not ctx.eq(tot["SETUP_STATE"], exp_setup):
            F.soft(f"C17:setup-time-not-charged-to-SETUP_STATE@{cls}", {})
        # processing time measured from the ledger: [start, start+d) per unit of work
        d = F.unit_delay.get(n.id)
        proc = 0
        if cls == "Splitter":
            starts = [ev[1] for ev in F.events if ev[0] == "get" and ev[3] is n]
        else:
            # the combiner starts processing when the last ingredient of a pallet has been taken
            starts = []
            st = None
            cnt = 0
            need = sum(n.target_quantity_of_each_item[1:])
            for ev in F.events:
                if ev[0] == "get" and ev[3] is n:
                    idx = next(i for i, x in enumerate(n.in_edges) if x is ev[2])
                    if idx == 0:
                        cnt = 0
                        if need == 0:
                            starts.append(ev[1])
                    else:
                        cnt += 1
                        if cnt == need:
                            starts.append(ev[1])
        if cls == "Combiner":
            # one unit of work at a time: packing the k-th pallet cannot start before the (k-1)-th has left (been pushed, or dropped by a non-blocking
            # combiner - a drop happens at the instant processing ends); while its push is blocked the combiner is BLOCKED, not PROCESSING
            outs = [ev[1] for ev in F.events if ev[0] == "put" and ev[3] is n]
            adj = []
            prev_end = None
            for k, t0 in enumerate(starts):
                if prev_end is not None and ctx.lt(t0, prev_end):
                    t0 = prev_end
                adj.append(t0)
                if n.blocking:
                    prev_end = outs[k] if k < len(outs) else T
                else:
                    prev_end = t0 + d
                    if k < len(outs) and ctx.lt(prev_end, outs[k]):
                        prev_end = outs[k]
            starts = adj
        for t0 in starts:
            if ctx.le(T, t0):
                continue
            end = t0 + d
            if ctx.lt(T, end):
                end = T
            proc = proc + (end - t0)
        if not ctx.eq(tot["PROCESSING_STATE"], proc):
            F.soft(f"C17:PROCESSING_STATE-differs-from-measured-activity@{cls}", {})
