"""./vf check Cxx --tier quick|thorough   |   ./vf replay <file>"""
from __future__ import annotations

import argparse
import fnmatch
import hashlib
import json
import os
import sys
import time

ROOT = os.path.dirname(os.path.dirname(os.path.abspath(__file__)))
EXIT_OK, EXIT_VIOLATION, EXIT_HARNESS = 0, 1, 3


def load_known():
    p = os.path.join(ROOT, "known_findings.json")
    if not os.path.exists(p):
        return []
    return json.load(open(p))["findings"]


def match_known(known, pid, sig):
    for k in known:
        if k.get("status") != "known" or k["property"] != pid:
            continue
        for pat in k["signatures"]:
            # only * and ? are wildcards: signatures contain literal brackets
            if pat == sig or fnmatch.fnmatchcase(sig, pat.replace("[", "[[]")):
                return k
    return None


def write_replay(pid, rec):
    d = os.path.join(ROOT, "replays")
    os.makedirs(d, exist_ok=True)
    body = {"property": pid, "label": rec["label"], "spec": rec["spec"], "values": rec["values"],
            "choices": rec["choices"], "model": rec["model"], "info": rec["info"]}
    h = hashlib.sha1(json.dumps(body, sort_keys=True, default=str).encode()).hexdigest()[:10]
    path = os.path.join(d, f"{pid}-{h}.json")
    json.dump(body, open(path, "w"), indent=1, default=str)
    return path


def cmd_replay(path):
    from fractions import Fraction
    from . import explore, symx
    sys.stdout_orig = sys.stdout
    body = json.load(open(path))
    spec = tuple(body["spec"])
    fn = explore.build((spec[0], spec[1], spec[2]))
    vals = [Fraction(v) for v in body["values"]]
    real_stdout = sys.stdout
    sys.stdout = explore._Null()
    try:
        st, lab, info, cc = symx.run_concrete(fn, vals, body["choices"])
    finally:
        sys.stdout = real_stdout
    labs = [lab] if st == "violation" else []
    labs += [l for l, _ in cc.findings]
    print(f"replay of {path}: status={st} labels={labs}")
    if body["label"] in labs:
        print(f"REPRODUCED {body['label']}  info={info if st == 'violation' else [i for l, i in cc.findings if l == body['label']][:1]}")
        return EXIT_VIOLATION
    print("not reproduced")
    return EXIT_OK


def cmd_check(pid, tier, seed):
    from . import explore, props
    from .simenv import load_repo
    t0 = time.time()
    load_repo()
    P = props.PROPS[pid]
    known = load_known()
    jobs = P["jobs"](tier)
    workers = int(os.environ.get("VERIF_WORKERS", "0")) or None
    ev_jobs = []
    tot = {"paths": 0, "queries": 0, "solver_s": 0.0, "forks": 0, "validated": 0, "ok": 0, "infeasible": 0,
           "aborted": 0, "violating": 0}
    witness = {}
    violations = {}      # signature -> record
    known_hits = {}      # finding id -> (what, count)
    harness_errors = []
    samples = []
    all_exhaustive = True
    functions = set()
    budget_scale = float(os.environ.get("VERIF_BUDGET_SCALE", "1"))
    for job in jobs:
        name, spec = job["name"], job["spec"]
        o = explore.explore(spec, workers=workers, budget_s=job.get("budget_s", 30) * budget_scale, seed=seed,
                            validate_every=job.get("validate_every", 20), slice_s=job.get("slice_s", 1.5))
        tot["paths"] += o["paths"]
        tot["queries"] += o["queries"]
        tot["solver_s"] += o["solver_s"]
        tot["forks"] += o["forks"]
        tot["validated"] += o["validated"]
        tot["ok"] += o["status"].get("ok", 0)
        tot["infeasible"] += o["status"].get("infeasible", 0)
        tot["violating"] += o["status"].get("violation", 0)
        tot["aborted"] += sum(v for k, v in o["status"].items() if k in ("abort", "budget", "diverged"))
        for k, v in o["witness"].items():
            witness[k] = witness.get(k, 0) + v
        all_exhaustive = all_exhaustive and o["exhaustive"]
        if o["validation_failures"]:
            harness_errors.append({"job": name, "kind": "path-replay-mismatch", "detail": o["validation_failures"][:2]})
        if o["status"].get("diverged"):
            harness_errors.append({"job": name, "kind": "replay-divergence", "detail": o["aborts"]})
        if o["status"].get("harness-exception"):
            harness_errors.append({"job": name, "kind": "exception-inside-the-harness", "detail": {k: v for k, v in o["aborts"].items() if k.startswith("harness-exception")}})
        nviol = 0
        for rec in o["violations"] + o["findings"]:
            sig = rec["label"]
            lab_pid = sig.split(":")[0]
            if lab_pid == "CRASH" and not P.get("crash_is_violation", False):
                # an exception escaping the code under test belongs to C20; here the path just ends
                witness["path-ended-by-crash(C20):" + sig] = witness.get("path-ended-by-crash(C20):" + sig, 0) + 1
                continue
            if not rec["reproduced"]:
                harness_errors.append({"job": name, "kind": "counterexample-did-not-reproduce", "label": sig,
                                       "model": rec["model"], "choices": rec["choices"], "concrete": rec["concrete"]})
                continue
            k = match_known(known, pid, sig)
            if k is not None:
                e = known_hits.setdefault(k["id"], {"what": k["what"], "count": 0, "signatures": set()})
                e["count"] += 1
                e["signatures"].add(sig)
                continue
            nviol += 1
            if sig not in violations:
                violations[sig] = dict(rec, job=name)
        ev_jobs.append({"job": name, "spec": explore._jsonable(spec), "paths": o["paths"], "status": o["status"],
                        "exhaustive": o["exhaustive"], "frontier_left": o["frontier_left"], "queries": o["queries"],
                        "solver_s": round(o["solver_s"], 3), "wall_s": round(o["wall_s"], 2), "aborts": o["aborts"],
                        "bounds": job.get("bounds", ""), "new_violating_paths": nviol})
        for smp in o["samples"][:1]:
            if len(samples) < 6:
                samples.append({"job": name, **smp})
        if violations and os.environ.get("VERIF_STOP_EARLY"):
            # used by the seeded-change runner only: one reproduced, unlisted violation settles "caught"; the evidence of such a run is partial
            break
    # functions executed (one traced path of the first job of each distinct module)
    try:
        functions = props.trace_functions_for(jobs)
    except Exception as e:  # pragma: no cover
        functions = [f"(tracing failed: {e})"]
    # vacuity: required witnesses
    missing = [w for w in P.get("required_witnesses", []) if not any(fnmatch.fnmatchcase(k, w) and v > 0 for k, v in witness.items())]
    if missing:
        harness_errors.append({"kind": "vacuous", "missing_witnesses": missing})
    # reachability twin
    twin = P.get("twin")
    twin_ok = None
    if twin is not None:
        o = explore.explore(twin(tier), workers=workers, budget_s=20, seed=seed, stop_on_violation=True, slice_s=0.5)
        twin_ok = any(r["label"].startswith("TWIN") and r["reproduced"] for r in o["violations"])
        if not twin_ok:
            harness_errors.append({"kind": "reachability-twin-not-violated", "status": o["status"]})
    wall = time.time() - t0
    # ---- report ---------------------------------------------------------------------
    out_lines = []
    for kid, e in sorted(known_hits.items()):
        out_lines.append(f"KNOWN-FINDING: property={pid} {kid}: {e['what']} ({e['count']} paths)")
    replay_paths = []
    for sig, rec in sorted(violations.items()):
        path = write_replay(pid, rec)
        replay_paths.append(path)
        out_lines.append(f"VIOLATION property={pid} replay={path}")
        out_lines.append(f"  what: {sig}  info={rec['info']} model={rec['model']} choices={rec['choices']}")
    nontrivial = sum(v for k, v in witness.items() if any(fnmatch.fnmatchcase(k, w) for w in P.get("nontrivial_witnesses", P.get("required_witnesses", []))))
    evidence = {
        "property_id": pid,
        "tier": tier,
        "seed": seed,
        "level": "other",
        "coverage": {
            "explanation": P["explanation"],
            "evaluations": tot["paths"],
            "distinct_nontrivial": min(tot["paths"], nontrivial) if nontrivial else 0,
            "rule": P.get("rule", "one evaluation = one feasible symbolic path (a distinct sequence of solver-decided branch outcomes and bounded choices); "
                          "non-trivial = the path evaluated the property's oracle at least once on a non-degenerate state (see witness counts)"),
            "obligations": tot["queries"],
            "discharged": tot["queries"],
            "exhaustive": bool(all_exhaustive),
            "samples": samples,
            "functions_encoded": sorted(functions)[:400],
            "bounds": P.get("bounds", {}).get(tier, ""),
            "outside_bounds": P.get("outside", ""),
            "jobs": ev_jobs,
            "paths": tot,
            "solver": {"name": "z3 %s (python wheel)" % _z3v(), "queries": tot["queries"], "solver_s": round(tot["solver_s"], 2),
                       "unknown_results": 0},
            "witness_counts": {k: v for k, v in sorted(witness.items())},
            "path_replays_validated_against_plain_python": tot["validated"],
            "reachability_twin_violated": twin_ok,
            "known_findings_hit": {k: {"what": v["what"], "paths": v["count"], "signatures": sorted(v["signatures"])} for k, v in known_hits.items()},
            "violations": [{"signature": s, "replay": p} for s, p in zip(sorted(violations), replay_paths)],
            "harness_errors": harness_errors,
        },
        "assumptions": P.get("assumptions", []) + props.COMMON_ASSUMPTIONS,
        "wall_s": round(wall, 2),
        "violations": len(violations),
    }
    evdir = os.environ.get("VERIF_EVIDENCE_DIR") or os.path.join(ROOT, "evidence")   # (the override is only used by the mutant runner)
    os.makedirs(evdir, exist_ok=True)
    with open(os.path.join(evdir, f"{pid}.json"), "w") as f:
        json.dump(evidence, f, indent=1, default=str)
    for l in out_lines:
        print(l)
    print(f"{pid} [{tier}] paths={tot['paths']} exhaustive={all_exhaustive} queries={tot['queries']} solver_s={tot['solver_s']:.1f} "
          f"validated={tot['validated']} known={len(known_hits)} violations={len(violations)} harness_errors={len(harness_errors)} wall={wall:.1f}s")
    if harness_errors:
        print("HARNESS-ERROR " + json.dumps(harness_errors, default=str)[:3000])
        if not violations:
            return EXIT_HARNESS
    if violations:
        return EXIT_VIOLATION
    return EXIT_OK


def _z3v():
    import z3
    return z3.get_version_string()


def main(argv=None):
    ap = argparse.ArgumentParser()
    sub = ap.add_subparsers(dest="cmd", required=True)
    c = sub.add_parser("check")
    c.add_argument("pid")
    c.add_argument("--tier", default=os.environ.get("VERIF_TIER", "quick"), choices=["quick", "thorough"])
    r = sub.add_parser("replay")
    r.add_argument("path")
    a = ap.parse_args(argv)
    seed = int(os.environ.get("VERIF_SEED", "0") or 0)
    if a.cmd == "check":
        try:
            return cmd_check(a.pid, a.tier, seed)
        except Exception as e:     # never let a bug of the machinery look like a verdict
            import traceback
            traceback.print_exc()
            print(f"HARNESS-ERROR {type(e).__name__}: {e}")
            return EXIT_HARNESS
    return cmd_replay(a.path)


if __name__ == "__main__":
    sys.exit(main())
