"""Environment construction, repository loading and the numpy shim."""
from __future__ import annotations

import math
import os
import sys

REPO = os.environ.get("VERIF_REPO", "/repo")
_loaded = False
# the working tree under test must win over the editable install, whoever imports factorysimpy first
if os.path.join(REPO, "src") not in sys.path:
    sys.path.insert(0, os.path.join(REPO, "src"))


def _round_half_even(x):
    """numpy rounds half to even; floor() of a symbolic value is decided by the solver like every other branch"""
    f = math.floor(x + 0.5)
    if (x + 0.5) == f and f % 2 == 1:
        f -= 1
    return f


class _LazyRound:
    """np.round(<symbolic>) – the repository only prints such values; the rounding (a solver-decided floor) happens only if the number is used"""

    def __init__(self, x):
        self._x = x
        self._v = None

    def _val(self):
        if self._v is None:
            self._v = _round_half_even(self._x)
        return self._v

    def __format__(self, spec):
        return "<sym>"

    __repr__ = __str__ = lambda self: "<sym>"

    def __int__(self):
        return int(self._val())

    __index__ = __int__

    def __float__(self):
        return float(self._val())

    def __hash__(self):
        return hash(self._val())

    def __bool__(self):
        return bool(self._val())


def _lazy_ops():
    import operator
    for name in ("add", "sub", "mul", "truediv", "floordiv", "mod", "lt", "le", "gt", "ge", "eq", "ne"):
        op = getattr(operator, name)
        setattr(_LazyRound, f"__{name}__", (lambda op: lambda self, o: op(self._val(), o._val() if isinstance(o, _LazyRound) else o))(op))
        if name in ("add", "sub", "mul", "truediv", "floordiv", "mod"):
            setattr(_LazyRound, f"__r{name}__", (lambda op: lambda self, o: op(o, self._val()))(op))


_lazy_ops()


class _NpShim:
    """`np` as seen by belt_store / continuous_conveyor: abs/round/ceil dispatch to the symbolic value."""

    def __init__(self, real_np):
        self._np = real_np

    def abs(self, x):
        from . import symx
        if isinstance(x, (symx.SymReal, symx.SymInt, symx.QReal)):
            return abs(x)
        return self._np.abs(x)

    def round(self, x, *a):
        from . import symx
        if isinstance(x, (symx.SymReal, symx.SymInt)) and not a:
            return _LazyRound(x)
        if isinstance(x, symx.QReal) and not a:
            return _round_half_even(x)
        return self._np.round(x, *a)

    def ceil(self, x):
        from . import symx
        if isinstance(x, (symx.SymReal, symx.SymInt, symx.QReal)):
            return math.ceil(x)
        return self._np.ceil(x)

    def __getattr__(self, name):
        return getattr(self._np, name)


def load_repo():
    """import factorysimpy from the current working tree of REPO and install the shims"""
    global _loaded
    if _loaded:
        return
    os.environ.setdefault("FACTORYSIMPY_VERIF", "1")
    src = os.path.join(REPO, "src")
    if src not in sys.path:
        sys.path.insert(0, src)
    import factorysimpy  # noqa
    assert os.path.realpath(factorysimpy.__file__).startswith(os.path.realpath(src)), factorysimpy.__file__
    import numpy as real_np
    import factorysimpy.base.belt_store as bs
    import factorysimpy.edges.continuous_conveyor as cc
    shim = _NpShim(real_np)
    bs.np = shim
    cc.np = shim
    _loaded = True


def make_env():
    import simpy
    return simpy.Environment()


def repo_functions_seen():
    """names of repository functions that were executed (filled by the tracer)"""
    return sorted(_SEEN)


_SEEN = set()


def trace_functions(fn, *a, **kw):
    """run fn once under sys.setprofile, recording which /repo functions executed"""
    src = os.path.realpath(os.path.join(REPO, "src"))

    def prof(frame, event, arg):
        if event == "call":
            co = frame.f_code
            f = co.co_filename
            if f.startswith(src):
                _SEEN.add(f"{os.path.relpath(f, src)}:{co.co_qualname if hasattr(co, 'co_qualname') else co.co_name}")
    sys.setprofile(prof)
    try:
        return fn(*a, **kw)
    finally:
        sys.setprofile(None)
