"""Environment construction, repository loading and the numpy shim."""
from __future__ import annotations

import math
import os
import sys

REPO = os.environ.get("VERIF_REPO", "/repo")
_loaded = False
# the working tree under test must win over the editable install, whoever imports factorysimpy first
if os.path.join(REPO, "src") not in sys.path:
    sys.path.insert(0, os.path.join(REPO, "src"))


class _NpShim:
    """`np` as seen by belt_store / continuous_conveyor: abs/round/ceil dispatch to the symbolic value."""

    def __init__(self, real_np):
        self._np = real_np

    def abs(self, x):
        from . import symx
        if isinstance(x, (symx.SymReal, symx.SymInt, symx.QReal)):
            return abs(x)
        return self._np.abs(x)

    def round(self, x, *a):
        from . import symx
        if isinstance(x, (symx.SymReal, symx.SymInt)):
            return x     # only used inside print() calls
        if isinstance(x, symx.QReal):
            return round(float(x))
        return self._np.round(x, *a)

    def ceil(self, x):
        from . import symx
        if isinstance(x, (symx.SymReal, symx.SymInt, symx.QReal)):
            return math.ceil(x)
        return self._np.ceil(x)

    def __getattr__(self, name):
        return getattr(self._np, name)


def load_repo():
    """import factorysimpy from the current working tree of REPO and install the shims"""
    global _loaded
    if _loaded:
        return
    os.environ.setdefault("FACTORYSIMPY_VERIF", "1")
    src = os.path.join(REPO, "src")
    if src not in sys.path:
        sys.path.insert(0, src)
    import factorysimpy  # noqa
    assert os.path.realpath(factorysimpy.__file__).startswith(os.path.realpath(src)), factorysimpy.__file__
    import numpy as real_np
    import factorysimpy.base.belt_store as bs
    import factorysimpy.edges.continuous_conveyor as cc
    shim = _NpShim(real_np)
    bs.np = shim
    cc.np = shim
    _loaded = True


def make_env():
    import simpy
    return simpy.Environment()


def repo_functions_seen():
    """names of repository functions that were executed (filled by the tracer)"""
    return sorted(_SEEN)


_SEEN = set()


def trace_functions(fn, *a, **kw):
    """run fn once under sys.setprofile, recording which /repo functions executed"""
    src = os.path.realpath(os.path.join(REPO, "src"))

    def prof(frame, event, arg):
        if event == "call":
            co = frame.f_code
            f = co.co_filename
            if f.startswith(src):
                _SEEN.add(f"{os.path.relpath(f, src)}:{co.co_qualname if hasattr(co, 'co_qualname') else co.co_name}")
    sys.setprofile(prof)
    try:
        return fn(*a, **kw)
    finally:
        sys.setprofile(None)
