"""Per-property job tables: which scenarios are explored for which property, at which bounds."""
from __future__ import annotations

import sys

COMMON_ASSUMPTIONS = [
    "simulated times, delays and gaps are exact reals (IEEE-754 rounding is outside the claim); counterexamples are replayed with floats / exact rationals",
    "print() output is discarded; numpy's abs/round/ceil in belt_store/continuous_conveyor are rebound to a shim that dispatches to the symbolic value",
    "z3 decides every branch on a symbolic scalar; 'unknown' aborts the path and is counted (never observed)",
    "bounded nondeterministic choices (next call, token, shape of the constructed state) are enumerated exhaustively within the stated bounds",
]

UNTIMED = ["RPRS", "RRS", "RPRFS"]
TIMED = ["BUF_FIFO", "BUF_LIFO", "RPRFS_TD", "FLEET", "FLEET0"]
BELTS = ["SBELT_ACC", "CBELT_ACC", "CBELT_NOACC"]


def m1(store, family, N, K, oracles, budget, name=None, **kw):
    return {"name": name or f"M1/{store}/{family}/N{N}K{K}",
            "spec": ("vfy.m1", "scenario", dict(store=store, family=family, N=N, K=K, oracles=tuple(oracles), **kw)),
            "budget_s": budget,
            "bounds": f"store={store} family={family} items<={N} free_calls={K} {kw}"}


def _jobs_store_family(oracles, family_untimed, family_timed, tier, stores_untimed=UNTIMED, stores_timed=TIMED, belts=BELTS,
                       extra=None):
    jobs = []
    q = tier == "quick"
    for s in stores_untimed:
        if s == "RPRFS" and q:
            # the filter store multiplies every shape by filter / key choices: two small exhaustive shapes instead of one cut-off large one
            jobs.append(m1(s, family_untimed, 2, 1, oracles, 12, R2=1, RMAX=2, S=1))
            jobs.append(m1(s, family_untimed, 2, 2, oracles, 12, R2=0, RMAX=2, S=1, USE=False, name=f"M1/RPRFS/{family_untimed}/N2K2-r0"))
            continue
        n = 3 if q else (3 if s == "RPRFS" else 4)
        jobs.append(m1(s, family_untimed, n, 2 if q else 3, oracles, 12 if q else 60))
        # the same calls issued by two caller processes in turn (ownership checks, per-process look-ups)
        jobs.append(m1(s, family_untimed, 2, 1 if q else 2, oracles, 8 if q else 40, PROCS=2, name=f"M1/{s}/{family_untimed}/N2-two-callers"))
    if q and "RPRFS" in stores_untimed:
        jobs.append(m1("RPRFS", family_untimed, 3, 0, oracles, 12, R2=0, RMAX=1, S=0, name=f"M1/RPRFS/{family_untimed}/N3K0-one-filtered"))
    for s in stores_timed:
        if q and s.startswith("FLEET"):
            # concrete fleet timing makes these cheap: richer shape
            jobs.append(m1(s, family_timed, 2, 2, oracles, 20, R2=1, USE=True, S=2))
            jobs.append(m1(s, family_timed, 3, 0, oracles, 14, R2=2, USE=True, S=0, PROCS="both", name=f"M1/{s}/{family_timed}/N3K0-use"))
            continue
        if q:
            jobs.append(m1(s, family_timed, 2, 1, oracles, 20, R2=1, USE=False, S=1))
            if s.startswith("BUF") and family_timed != "space":
                jobs.append(m1(s, family_timed, 3, 1, oracles, 14, R2=1, USE=False, TR=False, S=1, RMAX=3 if family_timed == "both" else 9))
                jobs.append(m1(s, family_timed, 3, 0, oracles, 14, R2=2, USE=True, TR=False, S=0, PROCS="both", name=f"M1/{s}/{family_timed}/N3K0-use"))
        else:
            jobs.append(m1(s, family_timed, 2, 2, oracles, 75, R2=1, USE=True))
            jobs.append(m1(s, family_timed, 3, 1, oracles, 75, R2=1, USE=True, TR=False))
            jobs.append(m1(s, family_timed, 3, 1, oracles, 40, R2=2, USE=True, TR=False, S=0, PROCS=2, name=f"M1/{s}/{family_timed}/N3K1-two-callers"))
    for s in belts:
        if q:
            jobs.append(m1(s, family_timed, 2, 1, oracles, 10, R2=1, USE=False))
            # the same history with a user polling can_put()/can_get() between any two calls
            jobs.append(m1(s, family_timed, 2, 1, oracles, 8, R2=1, USE=False, POLL=True, name=f"M1/{s}/{family_timed}/N2K1-polled"))
            jobs.append(m1(s, family_timed, 2, 1, oracles, 10, R2=1, USE=True, POLL="one", name=f"M1/{s}/{family_timed}/N2K1-polled-once"))
        else:
            jobs.append(m1(s, family_timed, 2, 2, oracles, 60, R2=1, USE=True))
            jobs.append(m1(s, family_timed, 2, 2, oracles, 40, R2=1, USE=True, POLL=True, name=f"M1/{s}/{family_timed}/N2K2-polled"))
            jobs.append(m1(s, family_timed, 2, 1, oracles, 60, R2=1, USE=True, POLL="one", name=f"M1/{s}/{family_timed}/N2K1-polled-once"))
    if extra:
        jobs.extend(extra(tier))
    return jobs


def _jobs_item_kinds(oracles, family, tier):
    """the same histories with flow items that compare equal although they are distinct objects, and with items whose truth value is False"""
    q = tier == "quick"
    jobs = []
    for s in ("RPRS", "RPRFS", "BUF_FIFO", "BUF_LIFO", "FLEET", "SBELT_ACC", "CBELT_ACC"):
        n = 2 if s.endswith("ACC") else 3
        k = 1 if s.endswith("ACC") else 0
        jobs.append(m1(s, family, n, k if q else k + 1, oracles, 8 if q else 40, R2=2 if q else 1, USE=True, TR=False, S=0, ITEMS="equal", name=f"M1/{s}/{family}/equal-valued-items"))
    for s in ("RRS", "BUF_FIFO", "FLEET", "CBELT_ACC"):
        n = 2 if s.endswith("ACC") else 3
        k = 1 if s.endswith("ACC") else 0
        jobs.append(m1(s, family, n, k, oracles, 6 if q else 30, R2=2, USE=True, TR=False, S=0, ITEMS="falsy", name=f"M1/{s}/{family}/falsy-items"))
    # distinct objects that carry the same id (a part number, not a serial number)
    for s in ("BUF_LIFO", "FLEET", "SBELT_ACC", "CBELT_ACC", "CBELT_NOACC"):
        n = 2 if "BELT" in s else 3
        k = 1 if "BELT" in s else 0
        jobs.append(m1(s, family, n, k, oracles, 6 if q else 30, R2=2, USE=True, TR=False, S=0, ITEMS="same-id", name=f"M1/{s}/{family}/same-id-items"))
    return jobs


def twin_m1(store="RPRS", family="retrieval"):
    def f(tier):
        return ("vfy.m1", "scenario", dict(store=store, family=family, N=2, K=1, oracles=("TWIN",), twin=True))
    return f


PROPS = {}

PROPS["C01"] = {
    "explanation": "Bounded symbolic execution of the real store classes (and the edges built on them): a store state is constructed through the public "
                   "API from a symbolic shape, then K solver-chosen calls / kernel steps follow; capacity, delays and time gaps are unbounded z3 "
                   "variables. After every call and kernel event the ledger occupancy (puts minus gets) plus granted-unused space reservations "
                   "must be <= capacity, and a put with a granted reservation must not raise.",
    "jobs": lambda tier: _jobs_store_family(("C01",), "space", "space", tier) + [
        m1(s, "both", 2, 1 if tier == "quick" else 2, ("C01",), 10 if tier == "quick" else 60, R2=0, USE=False, S=2)
        for s in ("RPRS", "RRS", "RPRFS", "BUF_FIFO", "FLEET")] + [
        m1("BUFE_FIFO", "space", 2, 1 if tier == "quick" else 2, ("C01",), 10 if tier == "quick" else 60),
        m1("FLEETE", "space", 2, 1 if tier == "quick" else 2, ("C01",), 10 if tier == "quick" else 60)],
    "required_witnesses": ["C01:checked", "step:use", "cancel-granted-put"],
    "nontrivial_witnesses": ["complete"],
    "twin": twin_m1("RPRS", "space"),
    "bounds": {"quick": "<=3 items (<=2 for timed stores) in the constructed state, <=3 outstanding space reservations, 2 (1) free calls; capacity unbounded symbolic",
               "thorough": "<=4 items (<=3 timed), 3 (2) free calls"},
    "outside": "more items / longer free suffixes than the bounds; factories (covered by the C03 monitor)",
}

PROPS["C02"] = {
    "explanation": "Same engine and scenarios as C01 on the retrieval side: identity ledger put = got + inside (inside read from items/ready_items) after every "
                   "call; every granted retrieval is backed by its own free available item (reference binding); a get with a granted reservation never raises.",
    "jobs": lambda tier: _jobs_store_family(("C02",), "retrieval", "retrieval", tier) + _jobs_item_kinds(("C02",), "retrieval", tier),
    "required_witnesses": ["C02:get-checked", "cancel-granted-get"],
    "nontrivial_witnesses": ["complete"],
    "twin": twin_m1("BUF_FIFO", "retrieval"),
    "bounds": {"quick": "<=3 retrievable items (<=2 + <=1 in transit for timed stores; fleets: + <=1 item loaded later), <=4 retrieval reservations any subset cancelled, 2 (1) free calls; one or two caller processes; polled belt histories; value-equal and falsy items",
               "thorough": "<=4 (<=3) items, 3 (2) free calls"},
    "outside": "longer histories",
}

PROPS["C04"] = {
    "explanation": "Same engine; at every quiescent point (after every call for time-less stores, after every simulated instant has been drained for timed "
                   "stores) no space request is pending while ledger occupancy + granted-unused space reservations < capacity, and no retrieval request is "
                   "pending while an available, unbound item exists (availability from the harness's own put time + delay).",
    "jobs": lambda tier: _jobs_store_family(("C04",), "both", "both", tier) + [
        m1(s, "arrivals", 2 if tier == "quick" else 3, 1 if tier == "quick" else 2, ("C04",), 12 if tier == "quick" else 60)
        for s in ("RPRS", "RPRFS", "BUF_FIFO", "BUF_LIFO", "RPRFS_TD", "FLEET", "FLEET0")] + [
        m1(s, "spaceget", 2, 1 if tier == "quick" else 2, ("C04",), 12 if tier == "quick" else 60) for s in ("RPRS", "BUF_FIFO", "FLEET", "RPRFS_TD")] + conveyor_jobs(
        "C04", tier, only=lambda n: n in ("sconv-acc1-2producers", "cconv-acc1-2producers", "sconv-acc1-slow", "cconv-acc1-slow", "cconv-acc0-slow"), budget=10 if tier == "quick" else 60),
    "required_witnesses": ["C04:pending-put-checked", "C04:pending-get-checked", "C04:belt-checked"],
    "nontrivial_witnesses": ["complete"],
    "twin": twin_m1("BUF_FIFO", "both"),
    "bounds": {"quick": "as C02 plus <=2 outstanding space reservations", "thorough": "as C02 thorough"},
    "outside": "belt admission during stalls (C13)",
}

PROPS["C05"] = {
    "explanation": "Same engine; request priorities are unbounded z3 integers. Whenever a waiting request is granted while another stays waiting on the same "
                   "side, the granted one must be strictly ahead in (priority, arrival). PriorityReqStore/SortedQueue is checked with symbolic priorities "
                   "and symbolic request times.",
    "jobs": lambda tier: _jobs_c05(tier),
    "required_witnesses": ["C05:order-checked"],
    "nontrivial_witnesses": ["C05:order-checked"],
    "twin": twin_m1("RPRS", "prio_get"),
    "bounds": {"quick": "<=4 waiting requests per side, 2 free calls; priorities unbounded; withdraw-then-late-request shapes with the waiting-line order oracle", "thorough": "<=5 waiting requests, 3 free calls"},
    "outside": "more simultaneous waiters",
}


def _jobs_c05(tier):
    q = tier == "quick"
    jobs = []
    for s in ["RPRS", "RPRFS", "FLEET"]:
        jobs.append(m1(s, "prio_get", (2 if s == "RPRFS" else 3) if q else 4, (2 if s == "RPRS" else 1) if q else 3, ("C05",), 14 if q else 60))
        jobs.append(m1(s, "prio_put", 3 if q else 4, 2 if q else 3, ("C05",), 12 if q else 60))
        # waiting producers withdraw, a late request joins: the waiting line itself must stay in (priority, arrival) order
        jobs.append(m1(s, "prio_put", 3 if q else 4, 1 if q else 2, ("C05",), 10 if q else 50, LATEPUT=True, name=f"M1/{s}/prio_put/withdraw-then-late-request"))
    # timed priority stores also with calls made at the very start of an instant (before that instant's own events)
    jobs.append(m1("SBELT_PRIO", "prio_put", 3, 2, ("C05",), 25 if q else 60, EARLY=True))
    jobs.append(m1("SBELT_PRIO", "prio_put", 3, 0 if q else 1, ("C05",), 10 if q else 50, LATEPUT=True, name="M1/SBELT_PRIO/prio_put/withdraw-then-late-request"))
    jobs.append(m1("SBELT_PRIO", "prio_get", 3, 1 if q else 2, ("C05",), 14 if q else 60, EARLY=True))
    jobs.append(m1("RPRFS_TD", "prio_get", 3, 1 if q else 2, ("C05",), 14 if q else 60, EARLY=True))
    jobs.append(m1("FLEET", "prio_get", 2, 1 if q else 2, ("C05",), 14 if q else 60, EARLY=True, name="M1/FLEET/prio_get/early"))
    for s in ["RRS", "BUF_FIFO", "SBELT_ACC", "CBELT_ACC"]:
        jobs.append(m1(s, "prio_get", 3, 1 if q else 3, ("C05",), 12 if q else 60))
        if s in ("RRS", "BUF_FIFO"):
            jobs.append(m1(s, "prio_put", 3, 2 if q else 3, ("C05",), 10 if q else 60))
    jobs.append({"name": "M0/PriorityReqStore", "spec": ("vfy.m0", "prs_scenario", dict(n=3 if q else 4)), "budget_s": 15 if q else 60,
                 "bounds": "PriorityReqStore: n requests per side with symbolic priorities and symbolic request times"})
    return jobs


PROPS["C06"] = {
    "explanation": "Same engine; the harness keeps the order in which items became available and, when a retrieval reservation is granted, computes the "
                   "reference binding (FIFO: earliest available unbound item; LIFO: latest; filter store: earliest unbound item satisfying the filter, "
                   "thresholds symbolic). The item later returned by get(token) must be the reference item, also after cancellations of granted reservations.",
    "jobs": lambda tier: _jobs_store_family(("C06",), "retrieval", "retrieval", tier) + _jobs_item_kinds(("C06",), "retrieval", tier),
    "required_witnesses": ["C06:get-checked", "cancel-granted-get"],
    "nontrivial_witnesses": ["complete"],
    "twin": twin_m1("BUF_LIFO", "retrieval"),
    "bounds": {"quick": "as C02", "thorough": "as C02 thorough"},
    "outside": "ties in availability are ordered by put order (the order SimPy fires equal-time timers)",
}


def spec_job(name, mod, fac, budget, bounds="", **kw):
    return {"name": name, "spec": (mod, fac, kw), "budget_s": budget, "bounds": bounds or str(kw)}


def _jobs_c07(tier):
    q = tier == "quick"
    jobs = []
    for s in ["RPRS", "RRS", "RPRFS"]:
        jobs.append(spec_job(f"M1/C07/{s}", "vfy.m1", "scenario_c07", 12 if q else 75, store=s, N=2, K=0 if q else 1, T=2 if q else 3))
        jobs.append(spec_job(f"M1/C07/{s}/caller-outside-any-process", "vfy.m1", "scenario_c07", 8 if q else 40, store=s, N=1, K=0, T=2, OUTSIDE=True))
    for s in ["BUF_FIFO", "BUF_LIFO", "FLEET", "SBELT_ACC", "CBELT_ACC", "CBELT_NOACC"]:
        jobs.append(spec_job(f"M1/C07/{s}", "vfy.m1", "scenario_c07", 14 if q else 75, store=s, N=1 if q else 2, K=0 if q else 1, T=2))
        # one of the two callers is set-up code outside any process (its tokens are owned by "no process")
        jobs.append(spec_job(f"M1/C07/{s}/caller-outside-any-process", "vfy.m1", "scenario_c07", 8 if q else 40, store=s, N=1, K=0, T=2, OUTSIDE=True))
        if q and s in ("BUF_FIFO", "FLEET"):
            # two items, so that both caller processes can hold a granted retrieval while one of them misuses the other's token
            jobs.append(spec_job(f"M1/C07/{s}/N2", "vfy.m1", "scenario_c07", 14, store=s, N=2, K=0, T=2))
    return jobs


PROPS["C07"] = {
    "explanation": "Same engine; a populated store state (items, used / cancelled / granted / pending reservations of two caller processes on both sides) is "
                   "constructed through the public API, then ONE ill-formed call out of 18 kinds is made (put/get with an unknown, foreign, used, cancelled, "
                   "pending or wrong-kind token; cancel of an unknown, used or cancelled token). It must raise RuntimeError, a snapshot of the store's lists, "
                   "of every token's triggered flag and of the number of scheduled kernel events must be unchanged, and every still-granted reservation "
                   "must work afterwards.",
    "jobs": _jobs_c07,
    "required_witnesses": ["C07:ill-formed:put-other-process-token", "C07:ill-formed:get-used-token", "C07:ill-formed:cancel-get-unknown-token",
                           "C07:ill-formed:put-cancelled-token", "C07:ill-formed:get-with-put-token"],
    "nontrivial_witnesses": ["complete"],
    "twin": lambda tier: ("vfy.m1", "scenario_c07", dict(store="RPRS", N=1, K=0, T=1, twin=True)),
    "bounds": {"quick": "<=2 items (1 for timed stores, 2 for BufferStore FIFO and FleetStore), <=2 reservations per side, one ill-formed call of 18 kinds, two caller processes taking turns, one of them optionally outside any process",
               "thorough": "<=2 items, <=3 reservations per side, one optional free call before the ill-formed call"},
    "outside": "sequences of several ill-formed calls",
}


def _jobs_c11(tier):
    q = tier == "quick"
    jobs = []
    for s in ["BUFE_FIFO", "BUFE_LIFO", "BUFE_FIFO_GEN", "BUFE_FIFO_CONST", "FLEETE"]:
        if q:
            jobs.append(spec_job(f"M1/C11/{s}", "vfy.m1", "scenario_c11", 14, store=s, N=2, K=1, R2=0, RMAX=2, S=1, TRN=1))
            jobs.append(spec_job(f"M1/C11/{s}/transit2", "vfy.m1", "scenario_c11", 10, store=s, N=1, K=1, R2=0, RMAX=1, S=0, TRN=2))
            jobs.append(spec_job(f"M1/C11/{s}/spaceget", "vfy.m1", "scenario_c11", 12, store=s, N=2, K=1, family="spaceget"))
        else:
            jobs.append(spec_job(f"M1/C11/{s}", "vfy.m1", "scenario_c11", 90, store=s, N=2, K=2, R2=1, RMAX=3, S=2, TRN=2))
    return jobs


PROPS["C11"] = {
    "explanation": "Same engine, driving the Buffer and Fleet edge objects: after the constructed prefix, after every free call and at the final quiescent point "
                   "can_put()/can_get() are compared with a probe reservation issued at that instant (granted at once or not; the probe is cancelled again), "
                   "occupancy()/get_occupancy() with the ledger, and, for Buffer, retrievability with the harness's own put time + delay (symbolic reals, zero "
                   "included; constant, callable and generator delay sources; the source must be consulted exactly once per put). A get before t+d is a violation.",
    "jobs": _jobs_c11,
    "required_witnesses": ["C11:probe", "C02:get-checked"],
    "nontrivial_witnesses": ["complete"],
    "twin": lambda tier: ("vfy.m1", "scenario_c11", dict(store="BUFE_FIFO", N=1, K=0, R2=0, RMAX=1, S=0, twin=True)),
    "bounds": {"quick": "<=2 ready + <=1 in-transit items (fleet: loading / on a trip / delivered), <=2 retrieval and <=1 space reservations, 1 free call", "thorough": "<=3 retrieval, <=2 space reservations, 2 free calls"},
    "outside": "Fleet availability times (C14)",
}


def trace_functions_for(jobs):
    """run one path of up to 6 jobs under a profiler and collect the /repo functions that executed"""
    from . import explore, symx, simenv
    seen_specs = set()
    real = sys.stdout
    sys.stdout = explore._Null()
    try:
        n = 0
        for job in jobs:
            key = (job["spec"][0], job["spec"][1], job["spec"][2].get("store", job["spec"][2].get("scn", "")))
            if key in seen_specs:
                continue
            seen_specs.add(key)
            fn = explore.build(job["spec"])
            simenv.trace_functions(symx.run_path, fn, (), None)
            n += 1
            if n >= 14:
                break
    finally:
        sys.stdout = real
    return simenv.repo_functions_seen()


# =====================================================================================================
# M2 families (Source / Machine / Sink around Buffer edges)


def fan_cfgs(tier):
    q = tier == "quick"
    n3 = 3 if q else 4
    C = {}
    C["line-w1"] = dict(n_src=1, n_out=1, n_items=n3, w=1)
    C["line-w2-per-item"] = dict(n_src=1, n_out=1, n_items=n3, w=2, per_item_pd=True, out_cap=1)
    C["line-indelay"] = dict(n_src=1, n_out=1, n_items=3, w=1, in_delay="sym")
    C["line-gen"] = dict(n_src=1, n_out=1, n_items=3, w=1, per_item_pd=True, delay_kind="generator")
    C["line-const"] = dict(n_src=1, n_out=1, n_items=3, w=2, delay_kind="const")
    C["line-lifo"] = dict(n_src=1, n_out=1, n_items=4, w=1, in_cap=3, sym=("pd",), conv_kw=dict(mode="LIFO"))
    C["two-machines"] = dict(n_src=1, n_out=1, n_items=3, w=1, second_machine=True, out_delay=0)
    C["two-machines-fanout"] = dict(n_src=1, n_out=2, n_items=3, w=2, second_machine=True, out_delay=0, out_cap=1, sym=("pd",))
    C["line-fleet-out-3items"] = dict(n_src=1, n_out=1, n_items=3, w=1, out_kind="fleet", out_cap=2, sym=("iat",), conv_kw=dict(fdelay=1, transit=0.5), until=16)
    C["line-fleet-out"] = dict(n_src=1, n_out=1, n_items=2, w=1, out_kind="fleet", out_cap=2, sym=("pd",), conv_kw=dict(fdelay=1, transit=0.5), until=14)
    C["line-cconv-in"] = dict(n_src=1, n_out=1, n_items=3, w=1, in_kind="cconv", in_cap=3, sym=("iat", "pd"), out_delay=0)
    C["line-cconv-out"] = dict(n_src=1, n_out=1, n_items=3, w=2, out_kind="cconv", out_cap=3, sym=("iat", "pd"))
    C["fanin-fa-fleet"] = dict(n_src=2, n_out=1, n_items=2, w=1, in_kind="fleet", in_cap=2, sym=("iat",), same_iat=True, out_delay=0,
                               conv_kw=dict(fdelay=1, transit=0.5), until=12)
    C["fanin-fa"] = dict(n_src=2, n_out=1, n_items=2, w=1)
    C["fanin3-fa"] = dict(n_src=3, n_out=1, n_items=2, w=1, sym=("iat",), out_delay=0)
    C["line-srcfa"] = dict(n_src=1, n_out=1, n_items=3, w=1, src_out_sel="FIRST_AVAILABLE")
    C["fanin-fa-srcfa"] = dict(n_src=2, n_out=1, n_items=2, w=1, src_out_sel="FIRST_AVAILABLE", in_delay="sym-last", out_delay=0, sym=("iat",))
    C["fanout-sink-fanin"] = dict(n_src=1, n_out=2, n_items=3, w=2, out_cap=1, sink_fanin=True)
    C["fanout-sink-fanin-tie"] = dict(n_src=2, n_out=2, n_items=2, w=2, out_cap=2, sink_fanin=True, same_iat=True, sym=("iat", "pd"), out_delay=0)
    C["line-w2-varying-consumer"] = dict(n_src=1, n_out=1, n_items=3, w=2, out_cap=1, out_delay="sym-each", sym=("pd",))
    C["line-zero-iat"] = dict(n_src=1, n_out=1, n_items=3, w=1, iat_lo=0)
    C["fanin-fa-indelay"] = dict(n_src=2, n_out=1, n_items=2, w=1, in_delay="sym-last", out_delay=0, sym=("iat",))
    C["fanin-fa-w2-tie"] = dict(n_src=2, n_out=1, n_items=2, w=2, same_iat=True, per_item_pd=True)
    C["fanout-fa"] = dict(n_src=1, n_out=2, n_items=n3, w=1, out_cap=1)
    C["fanout-w2-tie"] = dict(n_src=2, n_out=2, n_items=1 if q else 2, w=2, out_cap=1, same_iat=True)
    C["nb-machine-fa"] = dict(n_src=1, n_out=2, n_items=n3, w=1, out_cap=1, blocking=False)
    C["nb-machine-rr"] = dict(n_src=1, n_out=2, n_items=n3, w=1, out_cap=1, blocking=False, out_sel="ROUND_ROBIN")
    C["nb-machine-w2"] = dict(n_src=2, n_out=1, n_items=2, w=2, out_cap=1, blocking=False, same_iat=True)
    C["nb-machine-w2-fanout-tie"] = dict(n_src=2, n_out=2, n_items=2, w=2, out_cap=1, blocking=False, same_iat=True)
    C["nb-machine-w2-fleet-buffer-tie"] = dict(n_src=2, n_out=2, n_items=2, w=2, out_kind=("fleet", "buffer"), out_cap=2, blocking=False, same_iat=True,
                                               sym=("iat",), conv_kw=dict(fdelay=1, transit=0.5), until=14, second_machine=True)
    C["nb-machine-fleet-out"] = dict(n_src=1, n_out=1, n_items=4, w=1, out_kind="fleet", out_cap=2, blocking=False, sym=("iat", "pd"), out_delay=0,
                                     conv_kw=dict(fdelay=1, transit=0.5), until=16)
    C["nb-machine-cconv-out-w2-tie"] = dict(n_src=2, n_out=1, n_items=2, w=2, out_kind="cconv", out_cap=3, blocking=False, same_iat=True, out_delay=0)
    C["nb-machine-cconv-out-slow"] = dict(n_src=1, n_out=1, n_items=4, w=1, out_kind="cconv", out_cap=2, blocking=False, sym=("iat", "pd"), second_machine=True,
                                          out_delay=0)
    C["fanout-w2-buffer-fleet-tie"] = dict(n_src=2, n_out=2, n_items=2, w=2, out_kind=("buffer", "fleet"), out_cap=1, same_iat=True, sym=("iat",),
                                           conv_kw=dict(fdelay=1, transit=0.5), until=14)
    C["line-sconv-in"] = dict(n_src=1, n_out=1, n_items=3, w=1, in_kind="sconv", in_cap=3, sym=("iat", "pd"), out_delay=0)
    C["line-sconv-out"] = dict(n_src=1, n_out=1, n_items=3, w=2, out_kind="sconv", out_cap=3, sym=("iat", "pd"))
    C["nb-machine-sconv-buffer"] = dict(n_src=1, n_out=2, n_items=4, w=1, out_kind=("sconv", "buffer"), out_cap=3, blocking=False, sym=("iat", "pd"), out_delay=0)
    C["nb-machine-cconv-buffer"] = dict(n_src=1, n_out=2, n_items=4, w=1, out_kind=("cconv", "buffer"), out_cap=3, blocking=False, sym=("iat", "pd"), out_delay=0)
    C["line-src-blocked"] = dict(n_src=1, n_out=1, n_items=4, w=1, in_cap=1, sym=("iat", "pd"), out_delay=0)
    C["fanout-sink-fanin-tie-cap1"] = dict(n_src=2, n_out=2, n_items=2, w=2, out_cap=1, sink_fanin=True, same_iat=True, sym=("iat", "pd"), out_delay="sym")
    C["nb-source-idx"] = dict(n_src=1, n_out=1, n_items=4, w=1, in_cap=1, src_blocking=False)
    C["nb-source-fa"] = dict(n_src=1, n_out=1, n_items=4, w=1, in_cap=1, src_blocking=False, src_out_sel="FIRST_AVAILABLE")
    C["rr-in"] = dict(n_src=2, n_out=1, n_items=2, w=1, in_sel="ROUND_ROBIN")
    C["rr-out"] = dict(n_src=1, n_out=2, n_items=n3, w=1, out_sel="ROUND_ROBIN", out_cap=1)
    C["rr-both"] = dict(n_src=2, n_out=3, n_items=3, w=1, in_sel="ROUND_ROBIN", out_sel="ROUND_ROBIN", sym=("pd",))
    C["idx-out"] = dict(n_src=1, n_out=2, n_items=3, w=1, out_sel=1, out_cap=1)
    C["callable-in"] = dict(n_src=2, n_out=1, n_items=2, w=1, in_sel="callable", sym=("pd",))
    C["generator-out"] = dict(n_src=1, n_out=2, n_items=3, w=1, out_sel="generator", out_cap=1, sym=("pd",))
    if not q:
        C["fanout3-w3"] = dict(n_src=1, n_out=3, n_items=4, w=3, out_cap=1, per_item_pd=True)
        C["fanin-fa-3items"] = dict(n_src=2, n_out=1, n_items=3, w=1)
        C["fanin-fa-w2"] = dict(n_src=2, n_out=2, n_items=2, w=2, per_item_pd=True, out_cap=1)
    return C


def pk_jobs_late(pid, tier, names, extra_kw=None):
    return pk_jobs(pid, tier, names=names, extra_kw=extra_kw)


def fan_jobs(pid, tier, names=None, extra_kw=None, budget=None):
    C = fan_cfgs(tier)
    jobs = []
    for name, cfg in C.items():
        if names is not None and name not in names:
            continue
        kw = dict(cfg)
        kw.update(extra_kw or {})
        kw["props"] = (pid,)
        jobs.append({"name": f"M2/fan/{name}", "spec": ("vfy.m2s", "fan", kw), "budget_s": budget or (15 if tier == "quick" else 75),
                     "bounds": str(cfg), "validate_every": 10})
    return jobs


def srcfan_jobs(pid, tier):
    J = []
    for name, kw in (("fa", dict()), ("fa-one-sink", dict(sink_fanin=True)), ("rr", dict(src_sel="ROUND_ROBIN")), ("generator", dict(src_sel="generator", n_items=3)),
                     ("nonblocking-fa", dict(blocking=False)), ("nonblocking-rr", dict(blocking=False, src_sel="ROUND_ROBIN", n_items=5)),
                     ("nonblocking-callable", dict(blocking=False, src_sel="callable", n_items=3)),
                     ("generator-with-out-of-range-answers", dict(src_sel="generator-bad", n_items=2))):
        if name.endswith("out-of-range-answers") and pid != "C15":
            continue        # a rejected answer ends the run with the library's IndexError: only C15 asks for that
        kw = dict(kw)
        kw["props"] = (pid,)
        if tier != "quick":
            kw["n_items"] = 5 if "n_items" not in kw else 4
        J.append({"name": "M2/srcfan/" + name, "spec": ("vfy.m2s", "srcfan", kw), "budget_s": 12 if tier == "quick" else 60, "bounds": str(kw), "validate_every": 10})
    return J


M2_EXPL = ("Bounded symbolic simulation: a small factory is built from the real Source/Machine/Sink/Buffer (and other) classes on the real SimPy kernel; "
           "inter-arrival, processing and buffer delays (and the end time) are z3 reals, so every ordering of same-instant and nearby events that some "
           "delay vector can produce is explored (heapq and the stores compare symbolic times through the solver). The store inside every edge is wrapped on "
           "the instance so that every reserve/put/get/cancel is logged with the calling node; ")

PROPS["C03"] = {
    "explanation": M2_EXPL + "after every instant each item identity is in exactly one place according to the ledger, the ledger agrees with the real contents of every "
                   "edge and node (item_in_process / worker item_to_put), generated = at sources + in edges + in nodes + discarded + received, and with finite "
                   "input under fair policies everything is received or counted as discarded at quiescence. The C01 capacity monitor runs on every edge.",
    "jobs": lambda tier: fan_jobs("C03", tier) + srcfan_jobs("C03", tier),
    "required_witnesses": ["C03:checked", "C03:quiescence-checked"],
    "nontrivial_witnesses": ["complete"],
    "twin": lambda tier: ("vfy.m2s", "fan", dict(props=("C03",), n_src=1, n_out=1, n_items=2, twin=True)),
    "bounds": {"quick": "43 topologies/modes around one machine (Buffer, Fleet, conveyor and mixed edges), <=4 items per source, <=3 sources, <=2 sinks, work_capacity<=2, 2-4 symbolic delays; 7 source fan-outs; 12 pallet lines incl. conveyor/fleet edges and two-stage packing",
               "thorough": "22 configurations, <=4 items per source, work_capacity<=3, 3 out-edges"},
    "outside": "cyclic graphs, more than one machine in series, RANDOM policy",
}

PROPS["C08"] = {
    "explanation": M2_EXPL + "per machine: items held <= work_capacity after every event; the processing-delay source (constant, callable, generator; per-item symbolic values, "
                   "zero included) is consulted exactly once per pulled item in the pull instant; t_out >= t_pull + d for every item (solver query, not sampling); at the end of "
                   "every instant no finished item is held while a permitted out-edge has room.",
    "jobs": lambda tier: fan_jobs("C08", tier),
    "required_witnesses": ["C08:residence-checked", "C08:finished-item-held"],
    "nontrivial_witnesses": ["complete"],
    "twin": lambda tier: ("vfy.m2s", "fan", dict(props=("C08",), n_src=1, n_out=1, n_items=2, twin=True)),
    "bounds": {"quick": "as C03", "thorough": "as C03"},
    "outside": "Splitter/Combiner residence is checked in the PK scenarios (C16 jobs)",
}

PROPS["C09"] = {
    "explanation": M2_EXPL + "blocking nodes: discard counters stay 0; non-blocking nodes: every drop happens at a moment when no permitted out-edge has room (ledger view), raises the "
                   "counter by exactly one, no finished item is held across an instant, and a non-blocking source keeps its cadence (k-th item at g1+..+gk).",
    "jobs": lambda tier: fan_jobs("C09", tier, names=["line-w1", "fanout-fa", "nb-machine-fa", "nb-machine-rr", "nb-machine-w2", "nb-source-idx", "nb-source-fa", "rr-out", "idx-out", "fanout-w2-tie",
                                                     "nb-machine-w2-fanout-tie", "nb-machine-w2-fleet-buffer-tie", "nb-machine-fleet-out", "nb-machine-cconv-out-w2-tie",
                                                     "nb-machine-cconv-out-slow", "line-cconv-out", "line-fleet-out", "nb-machine-sconv-buffer", "nb-machine-cconv-buffer"]),
    "required_witnesses": ["C09:discard-seen", "C09:nonblocking-source-checked"],
    "nontrivial_witnesses": ["complete"],
    "twin": lambda tier: ("vfy.m2s", "fan", dict(props=("C09",), n_src=1, n_out=1, n_items=2, blocking=False, twin=True)),
    "bounds": {"quick": "17 (node, mode, policy) configurations with Buffer, Fleet, conveyor and mixed out-edges, 8 pallet lines, 7 source fan-outs", "thorough": "same with 4 items"},
    "outside": "conveyor out-edges in non-blocking mode (known finding, C20)",
}

PROPS["C10"] = {
    "explanation": M2_EXPL + "token-based observer at the end of every instant: a node with a free worker has a retrieval request on every permitted in-edge, none of them granted-but-unused, none "
                   "pending while an item is available; a blocking node with a finished item requests space on every permitted out-edge and none has room; no node leaves more than one request per "
                   "edge or a granted reservation behind; at quiescence nothing is stranded.",
    "jobs": lambda tier: fan_jobs("C10", tier) + srcfan_jobs("C10", tier),
    "required_witnesses": ["C10:input-side-checked", "C10:output-side-checked", "C10:quiescence-checked"],
    "nontrivial_witnesses": ["complete"],
    "twin": lambda tier: ("vfy.m2s", "fan", dict(props=("C10",), n_src=2, n_out=1, n_items=1, twin=True)),
    "bounds": {"quick": "as C03", "thorough": "as C03"},
    "outside": "as C03",
}

PROPS["C15"] = {
    "explanation": M2_EXPL + "the edge on which every item is pulled/pushed is compared with the policy's answers (ROUND_ROBIN k mod n, constant index, user callable / generator whose answers "
                   "the solver chooses), FIRST_AVAILABLE must not cancel a granted request on a lower-index edge in the round in which it commits, and the recorded selection history must equal the routing.",
    "jobs": lambda tier: fan_jobs("C15", tier, names=["fanin-fa", "fanin-fa-indelay", "fanin-fa-w2-tie", "fanout-fa", "fanout-w2-tie", "nb-machine-fa", "nb-machine-rr", "rr-in", "rr-out", "rr-both", "idx-out", "callable-in", "generator-out", "fanout3-w3", "fanout-sink-fanin", "fanout-sink-fanin-tie", "fanout-sink-fanin-tie-cap1", "line-srcfa", "fanin-fa-srcfa", "fanin3-fa",
                                                     "nb-machine-w2-fanout-tie", "nb-machine-w2-fleet-buffer-tie", "nb-machine-fleet-out", "nb-machine-cconv-out-w2-tie", "nb-machine-sconv-buffer", "nb-machine-cconv-buffer"]) + srcfan_jobs("C15", tier) + pk_jobs_late("C15", tier, ["r11-rr2", "r13-nonblocking-split", "r12-fa2", "no-combiner-two-feeds-callable-in", "no-combiner-two-feeds-rr-in", "no-combiner-two-feeds-fa-in", "r13-nb-rr2-split"]) + [
        {"name": "M0/selectors", "spec": ("vfy.m0", "selector_scenario", dict(nmax=4 if tier == "quick" else 6)), "budget_s": 20 if tier == "quick" else 60, "bounds": "RoundRobin_edge_selector and _get_*_edge_index of all node classes with out-of-range answers"}],
    "required_witnesses": ["C15:routing-checked", "C15:history-checked", "C15:range-checked"],
    "nontrivial_witnesses": ["complete"],
    "twin": lambda tier: ("vfy.m2s", "fan", dict(props=("C15",), n_src=2, n_out=1, n_items=1, twin=True)),
    "bounds": {"quick": "n<=3 in / <=2 out edges (3 thorough), <=5 items, every policy kind, blocking and non-blocking nodes, splitter with two feeds", "thorough": ""},
    "outside": "RANDOM policy (any routing is legal)",
}

PROPS["C17"] = {
    "explanation": M2_EXPL + "the run ends at a symbolic time T (URGENT stop event exactly as env.run(until=T)); after update_final_state_time(T) all totals are >= 0, the Machine's two "
                   "state groups and its worker-occupancy histogram each equal T exactly (linear real arithmetic), SETUP = min(T, setup), and every class total equals the duration measured "
                   "independently from the ledger by a sweep over processing [t_pull, t_pull+d) and blocked [t_pull+d, t_out) intervals.",
    "jobs": lambda tier: fan_jobs("C17", tier, names=["line-w1", "line-w2-per-item", "fanin-fa", "fanout-fa", "nb-machine-fa", "nb-source-idx", "line-const", "fanout3-w3", "rr-out", "idx-out"], extra_kw={"until": "sym"}) + fan_jobs(
        "C17", tier, names=["line-w1"], extra_kw={"until": "sym", "setup": 2}),
    "required_witnesses": ["C17:finalised@Machine", "C17:finalised@Source", "C17:finalised@Sink"],
    "nontrivial_witnesses": ["complete"],
    "twin": lambda tier: ("vfy.m2s", "fan", dict(props=("C17",), n_src=1, n_out=1, n_items=1, until="sym", twin=True)),
    "bounds": {"quick": "T in [0.25, 8], <=4 items, work_capacity<=2", "thorough": "work_capacity<=3"},
    "outside": "",
}

PROPS["C18"] = {
    "explanation": M2_EXPL + "after finalisation at symbolic T: generated/processed/discarded/received counters equal the ledger counts; every edge's time-averaged occupancy is the opaque quotient "
                   "num/den with den == T and num == the integral of ledger occupancy (sum over items of residence, linear in the symbolic times); total_cycle_time equals the sum of reception - creation; "
                   "timestamps are non-decreasing along each route. Buffer, Fleet and continuous-conveyor edges; the statistic is read twice for the same end time (must not change), and in the "
                   "two-stage jobs the simulation is continued after the first reading to a second symbolic end time where everything is checked again.",
    "jobs": lambda tier: fan_jobs("C18", tier, names=["line-w1", "line-w2-per-item", "line-indelay", "line-zero-iat", "fanin-fa", "fanout-fa", "nb-machine-fa", "nb-source-idx", "idx-out", "rr-out",
                                                      "line-fleet-out", "line-cconv-in", "line-cconv-out", "line-sconv-in", "line-sconv-out", "fanout-sink-fanin", "fanout-sink-fanin-tie", "fanout-sink-fanin-tie-cap1", "line-src-blocked"], extra_kw={"until": "sym"}) + [
        dict(j, name=j["name"] + "/two-stage") for j in fan_jobs("C18", tier, names=["line-w1", "fanout-fa", "line-fleet-out", "line-cconv-in", "line-cconv-out", "line-sconv-out"],
                                                                 extra_kw={"until": "sym", "two_stage": True}, budget=20 if tier == "quick" else 90)],
    "required_witnesses": ["C18:counters-checked", "C18:cycle-time-checked", "C18:time-average-checked", "two-stage-finalisation"],
    "nontrivial_witnesses": ["complete"],
    "twin": lambda tier: ("vfy.m2s", "fan", dict(props=("C18",), n_src=1, n_out=1, n_items=1, until="sym", twin=True)),
    "bounds": {"quick": "as C17", "thorough": "as C17"},
    "outside": "weighted_sum/now is kept as an opaque quotient: numerator and denominator are compared separately",
}


def _jobs_c14(tier):
    q = tier == "quick"
    J = []

    def add(name, budget, **kw):
        kw["props"] = ("C14",)
        J.append({"name": "M2/fleet/" + name, "spec": ("vfy.m2x", "fleet", kw), "budget_s": budget, "bounds": str(kw), "validate_every": 25})
    add("cap2-2loads", 20 if q else 60, cap=2, n_loads=2)
    add("cap1-2loads", 25 if q else 60, cap=1, n_loads=2)
    add("cap3-3loads-gap-delay", 20 if q else 60, cap=3, n_loads=3, sym=("gap", "delay"))
    add("cap2-3loads-slow", 20 if q else 120, cap=2, n_loads=3, sym=("gap", "transit"), consumer="slow")
    add("cap2-zero-delay", 15 if q else 120, cap=2, n_loads=2, zero=True)
    add("cap2-3loads-juggling-consumer", 15 if q else 90, cap=2, n_loads=3, sym=("gap",), consumer="juggle")
    add("cap2-3loads-equal-items", 15 if q else 90, cap=2, n_loads=3, sym=("gap", "transit"), equal_items=True)
    if not q:
        add("cap2-3loads-all", 150, cap=2, n_loads=3)
        add("cap3-4loads", 120, cap=3, n_loads=4, sym=("gap", "delay"))
    return J


PROPS["C14"] = {
    # the edge is driven alone by harness processes: an exception escaping from it means items are not delivered as the property says
    "crash_is_violation": True,
    "explanation": "Bounded symbolic simulation of the real Fleet edge / FleetStore driven by a harness loader and unloader process: load gaps, the waiting delay and the transit delay "
                   "are z3 reals (zero included), so loads during a trip, in the instant of departure and every phase of the periodic timer are covered. From the instants at which items "
                   "first appear in ready_items: every item is delivered no earlier than one round trip and no later than delay + one round trip after loading; for every delivery instant R the "
                   "items loaded before R-2*transit and not yet delivered are in that batch, items loaded after it are not; hand-over in loading order; a full fleet departs at once.",
    "jobs": _jobs_c14,
    "required_witnesses": ["C14:item-checked", "C14:capacity-departure-checked"],
    "nontrivial_witnesses": ["complete"],
    "twin": lambda tier: ("vfy.m2x", "fleet", dict(props=("C14",), cap=2, n_loads=1, sym=("gap",), twin=True)),
    "bounds": {"quick": "capacity 1-3, 2-3 loads, 2-3 of {gaps, delay, transit} symbolic, eager, slow and juggling consumer, value-equal items, delay in [1,4] or [0,4]",
               "thorough": "up to 4 loads, all of gaps/delay/transit symbolic"},
    "outside": "more than 4 loads; fleets inside larger factories are covered by the C03/C20 scenarios",
}


def conveyor_cfgs(tier):
    q = tier == "quick"
    n = 3 if q else 4
    C = {}
    for kind in ("cconv", "sconv"):
        for acc in (1, 0):
            C[f"{kind}-acc{acc}-eager"] = dict(kind=kind, acc=acc, cap=3, n_items=n, consumer="eager")
            C[f"{kind}-acc{acc}-slow"] = dict(kind=kind, acc=acc, cap=3, n_items=3, consumer="slow")
            C[f"{kind}-acc{acc}-late"] = dict(kind=kind, acc=acc, cap=3, n_items=3, consumer="late")
    for kind in ("cconv", "sconv"):
        C[f"{kind}-acc1-juggling-consumer"] = dict(kind=kind, acc=1, cap=3, n_items=3, consumer="juggle")
    C["cconv-acc1-late-bystander-belt"] = dict(kind="cconv", acc=1, cap=4, n_items=3, consumer="late", bystander=True, svc_hi=12)
    C["sconv-acc1-fed-by-a-faster-belt"] = dict(kind="sconv", acc=1, cap=3, n_items=3, consumer="late", feeder=True, slot=2)
    C["cconv-acc0-fed-by-a-faster-belt"] = dict(kind="cconv", acc=0, cap=3, n_items=3, consumer="slow", feeder=True)
    C["sconv-acc1-cap2-hold"] = dict(kind="sconv", acc=1, cap=2, n_items=3, consumer="hold")
    C["cconv-acc1-cap2-hold"] = dict(kind="cconv", acc=1, cap=2, n_items=3, consumer="hold")
    C["sconv-acc1-2producers"] = dict(kind="sconv", acc=1, cap=3, n_items=3 if q else 4, consumer="late", n_prod=2)
    C["cconv-acc1-2producers"] = dict(kind="cconv", acc=1, cap=3, n_items=3 if q else 4, consumer="late", n_prod=2)
    C["cconv-acc0-cap3-hold"] = dict(kind="cconv", acc=0, cap=3, n_items=3, consumer="hold")
    C["cconv-acc1-cap2-slow"] = dict(kind="cconv", acc=1, cap=2, n_items=3, consumer="slow")
    C["cconv-acc1-speed2"] = dict(kind="cconv", acc=1, cap=2, n_items=3, consumer="late", speed=2, item_len=1, length=2)
    C["cconv-acc1-speed2-cap4"] = dict(kind="cconv", acc=1, cap=4, n_items=3, consumer="late", speed=2, item_len=1, length=4, svc_hi=10)
    C["cconv-acc0-halfitems"] = dict(kind="cconv", acc=0, cap=4, n_items=3, consumer="late", speed=1, item_len=0.5, length=2)
    C["cconv-acc1-nonmultiple"] = dict(kind="cconv", acc=1, cap=2, n_items=2, consumer="eager", speed=1, item_len=1, length=2.5)
    C["sconv-acc1-slot05"] = dict(kind="sconv", acc=1, cap=2, n_items=3, consumer="late", slot=0.5)
    if not q:
        C["cconv-acc1-cap4-slow4"] = dict(kind="cconv", acc=1, cap=4, n_items=4, consumer="slow")
        C["cconv-acc0-cap4-slow4"] = dict(kind="cconv", acc=0, cap=4, n_items=4, consumer="slow")
        C["sconv-acc1-cap4-slow4"] = dict(kind="sconv", acc=1, cap=4, n_items=4, consumer="slow")
    return C


def conveyor_jobs(pid, tier, only=None, budget=None):
    jobs = []
    for name, cfg in conveyor_cfgs(tier).items():
        if only and not only(name):
            continue
        kw = dict(cfg)
        kw["props"] = (pid,)
        jobs.append({"name": "M2/conveyor/" + name, "spec": ("vfy.m2x", "conveyor", kw), "budget_s": budget or (20 if tier == "quick" else 90), "bounds": str(cfg),
                     "validate_every": 25})
    return jobs


CONV_EXPL = ("Bounded symbolic simulation of the real ConveyorBelt edges (slotted and continuous, both accumulation flags) with their BeltStores, driven by a harness producer "
             "(reserve_put / put with symbolic arrival gaps, zero included) and a harness consumer (eager, late, or busy for symbolic service times after each item, which produces short, "
             "long and repeated stalls, also while items are entering). Entry, first-offered (first instant in ready_items) and removal instants E_i, R_i, G_i are terms over the symbolic gaps; ")

PROPS["C12"] = {
    # the edge is driven alone by harness processes: an exception escaping from it means items are not delivered as the property says
    "crash_is_violation": True,
    "explanation": CONV_EXPL + "oracles: removal order = entry order; ledger occupancy <= capacity after every event; E_{i+1}-E_i >= item length / speed (slot delay); R_i-E_i >= belt length / speed "
                   "(capacity*delay); with an eager consumer R_i-E_i equals it and G_i = R_i.",
    "jobs": lambda tier: conveyor_jobs("C12", tier),
    "required_witnesses": ["C12:travel-checked"],
    "nontrivial_witnesses": ["complete"],
    "twin": lambda tier: ("vfy.m2x", "conveyor", dict(props=("C12",), kind="cconv", n_items=1, twin=True)),
    "bounds": {"quick": "26 (belt kind, accumulation, geometry, consumer) configurations, capacity 2-4, 3 items, speeds 1 and 2, item length 1 and 0.5, one non-multiple belt length; consumers eager / late / slow / holding / juggling; one or two producers; one configuration with a bystander belt",
               "thorough": "20 configurations, 4 items"},
    "outside": "belt speed / length / item length are concrete per configuration (products with symbolic geometry would be non-linear); tolerance 2e-5 where the code uses 1e-5",
}

PROPS["C13"] = {
    # the edge is driven alone by harness processes: an exception escaping from it means items are not delivered as the property says
    "crash_is_violation": True,
    "explanation": CONV_EXPL + "oracles: a stall is an interval in which the head item is at the exit and not taken. Non-accumulating: no entry strictly inside a stall, and R_i = E_i + travel + "
                   "(stall time inside [E_i, R_i]) (nothing advances while stopped, everything resumes from where it stopped). Accumulating: R_i = max(E_i + travel, G_{i-1} + item length / speed) "
                   "(advance until touching the item ahead, one item length after it leaves), every item is eventually admitted, order preserved.",
    "jobs": lambda tier: conveyor_jobs("C13", tier, only=lambda n: "eager" not in n and ("hold" not in n or "acc0" in n)),
    "required_witnesses": ["C13:stall-seen", "C13:ready-time-checked"],
    "nontrivial_witnesses": ["complete"],
    "twin": lambda tier: ("vfy.m2x", "conveyor", dict(props=("C13",), kind="cconv", n_items=1, consumer="late", twin=True)),
    "bounds": {"quick": "as C12 (configurations with a slow or late consumer)", "thorough": "as C12"},
    "outside": "as C12",
}


def pk_cfgs(tier):
    q = tier == "quick"
    C = {}
    C["r11"] = dict(recipe=(1, 1), n_pallets=2)
    C["r12"] = dict(recipe=(1, 2), n_pallets=2)
    C["r111"] = dict(recipe=(1, 1, 1), n_pallets=2, sym=("ii", "pd"))
    C["r12-cap1"] = dict(recipe=(1, 2), n_pallets=2, item_cap=1, sym=("ii", "pd"))
    C["r101-zero-quantity"] = dict(recipe=(1, 0, 1), n_pallets=2, sym=("ii", "pd"))
    C["r11-rr2"] = dict(recipe=(1, 1), n_pallets=2, split_out=2, split_sel="ROUND_ROBIN", sym=("ii", "pd"))
    C["r11-rr2-blocked"] = dict(recipe=(1, 1), n_pallets=2, split_out=2, split_sel="ROUND_ROBIN", sym=("ii", "pd", "sd"), out_delay="sym")
    C["r12-fa2"] = dict(recipe=(1, 2), n_pallets=2, split_out=2, sym=("ii", "pd"), out_delay="sym")
    C["r12-nonblocking"] = dict(recipe=(1, 2), n_pallets=2, blocking=False, out_delay="sym", sym=("ii", "pd"))
    C["r11-idx"] = dict(recipe=(1, 1), n_pallets=2, split_out=2, split_sel=1, sym=("ip", "pd"))
    C["r11-lifo-mid"] = dict(recipe=(1, 1), n_pallets=3, mid_cap=3, mid_mode="LIFO", sym=("sd",), split_sd_hi=6)
    C["r11-split-in-idx"] = dict(recipe=(1, 1), n_pallets=3, split_in_sel=0, sym=("ip", "sd"), split_sd_hi=5, mid_cap=2)
    C["r13-nonblocking-split"] = dict(recipe=(1, 3), n_pallets=2, blocking=True, split_blocking=False, out_delay="sym", sym=("ii", "sd"), item_cap=3)
    C["r111-itemdelay"] = dict(recipe=(1, 1, 1), n_pallets=1, sym=("ii",), item_delay="sym-last", comb_only=True)
    C["r111-itemdelay-srcfa"] = dict(recipe=(1, 1, 1), n_pallets=2, sym=("ii",), item_delay="sym-last", comb_only=True, src_sel="FIRST_AVAILABLE")
    C["r12-srcfa"] = dict(recipe=(1, 2), n_pallets=2, src_sel="FIRST_AVAILABLE")
    C["r12-lifo-items"] = dict(recipe=(1, 2), n_pallets=2, sym=("ii", "pd"), item_mode="LIFO", item_cap=3, comb_only=True)
    C["r13-cap1"] = dict(recipe=(1, 3), n_pallets=2, item_cap=1, sym=("ii", "pd"))
    C["r12-splitq1"] = dict(recipe=(1, 2), n_pallets=2, split_quantity=1, sym=("ii",))
    C["no-combiner-rr"] = dict(recipe=(1,), n_pallets=3, no_combiner=True, split_out=2, split_sel="ROUND_ROBIN", out_delay="sym", sym=("ip", "sd"))
    C["r11-varying-consumer"] = dict(recipe=(1, 1), n_pallets=3, comb_only=True, out_delay="sym-each", mid_cap=1, sym=("pd",))
    C["r12-blocked-out"] = dict(recipe=(1, 2), n_pallets=3, comb_only=True, out_delay="sym", mid_cap=1, sym=("ip", "pd"))
    C["r12-comb-only"] = dict(recipe=(1, 2), n_pallets=2, comb_only=True, out_delay="sym")
    C["r13-nb-rr2-split"] = dict(recipe=(1, 3), n_pallets=2, split_out=2, split_sel="ROUND_ROBIN", blocking=True, split_blocking=False, out_delay="sym-first", sym=("ii", "sd"), item_cap=3)
    C["r12-nb-idx-split"] = dict(recipe=(1, 2), n_pallets=2, split_sel=0, blocking=True, split_blocking=False, out_delay="sym", sym=("ip", "sd"))
    C["no-combiner-two-feeds-callable-in"] = dict(recipe=(1,), n_pallets=2, no_combiner=True, second_feed=True, split_in_sel="callable", sym=("ip",))
    C["no-combiner-two-feeds-rr-in"] = dict(recipe=(1,), n_pallets=2, no_combiner=True, second_feed=True, split_in_sel="ROUND_ROBIN", sym=("ip",))
    C["no-combiner-two-feeds-fa-in"] = dict(recipe=(1,), n_pallets=2, no_combiner=True, second_feed=True, split_in_sel="FIRST_AVAILABLE", sym=("ip", "sd"))
    # two-stage packing: loaded pallets of the first combiner are the pallets of a second one
    C["two-stage-r11-r12"] = dict(recipe=(1, 1), recipe2=(1, 2), n_pallets=2, sym=("ii",))
    C["two-stage-r11-r11-slow-consumer"] = dict(recipe=(1, 1), recipe2=(1, 1), n_pallets=3, sym=("ip",), comb_only=True, out_delay="sym", mid_cap=1)
    # Splitter / Combiner next to conveyors and fleets (index policies; FIRST_AVAILABLE explicitly rejects non-Buffer edges there)
    C["r12-idx-cconv-out"] = dict(recipe=(1, 2), n_pallets=2, split_sel=0, out_kind="cconv", out_cap=3, sym=("ii", "sd"))
    C["r12-rr2-cconv-out"] = dict(recipe=(1, 2), n_pallets=2, split_out=2, split_sel="ROUND_ROBIN", out_kind="cconv", out_cap=3, sym=("ii", "sd"))
    C["r12-idx-sconv-out"] = dict(recipe=(1, 2), n_pallets=2, split_sel=0, out_kind="sconv", out_cap=3, sym=("ii", "sd"))
    C["r12-nb-idx-cconv-out"] = dict(recipe=(1, 2), n_pallets=2, split_sel=0, out_kind="cconv", out_cap=3, sym=("ii", "sd"), blocking=True, split_blocking=False)
    C["r12-nb-fa-cconv-out"] = dict(recipe=(1, 2), n_pallets=2, out_kind="cconv", out_cap=3, sym=("ii", "sd"), blocking=True, split_blocking=False)
    C["r12-nb-idx-sconv-out"] = dict(recipe=(1, 2), n_pallets=2, split_sel=0, out_kind="sconv", out_cap=3, sym=("ii", "sd"), blocking=True, split_blocking=False)
    C["r11-idx-cconv-mid"] = dict(recipe=(1, 1), n_pallets=2, split_in_sel=0, comb_out_sel=0, mid_kind="cconv", mid_cap=2, sym=("ii", "sd"))
    C["r11-nb-idx-cconv-mid"] = dict(recipe=(1, 1), n_pallets=3, split_in_sel=0, comb_out_sel=0, mid_kind="cconv", mid_cap=2, sym=("ip", "sd"), blocking=False, split_blocking=True)
    C["r11-idx-sconv-mid"] = dict(recipe=(1, 1), n_pallets=2, split_in_sel=0, comb_out_sel=0, mid_kind="sconv", mid_cap=2, sym=("ii", "sd"))
    C["r11-idx-fleet-mid"] = dict(recipe=(1, 1), n_pallets=2, split_in_sel=0, comb_out_sel=0, mid_kind="fleet", mid_cap=2, sym=("ii", "sd"), until=20, conv_kw=dict(fdelay=1, transit=0.5))
    if not q:
        C["r122"] = dict(recipe=(1, 2, 2), n_pallets=2, sym=("ii", "pd"))
        C["r12-3pallets"] = dict(recipe=(1, 2), n_pallets=3)
        C["r11-gen2"] = dict(recipe=(1, 1), n_pallets=2, split_out=2, split_sel="generator", sym=("ii", "pd"))
    return C


def pk_jobs(pid, tier, names=None, extra_kw=None):
    jobs = []
    for name, cfg in pk_cfgs(tier).items():
        if names is not None and name not in names:
            continue
        kw = dict(cfg)
        kw.update(extra_kw or {})
        kw["props"] = (pid,)
        jobs.append({"name": "M2/pk/" + name, "spec": ("vfy.m2p", "pk", kw), "budget_s": 15 if tier == "quick" else 75, "bounds": str(cfg), "validate_every": 10})
    return jobs


PROPS["C16"] = {
    "explanation": M2_EXPL + "topology: pallet source and item source(s) -> Combiner(recipe) -> buffer -> Splitter -> buffer(s) -> sink(s); arrival gaps of pallets and of every ingredient, "
                   "packing and unpacking delays are symbolic (items before pallets, starvation of one ingredient, ties). At every put on the combiner's out-edge the object must be a pallet taken "
                   "from in-edge 0 carrying exactly recipe[i] items taken from in-edge i for that pallet and nothing else; for each pallet the splitter takes, the subsequent puts must be its items, each "
                   "once, then the emptied pallet (drops in non-blocking mode must be counted); nothing else may be emitted.",
    "jobs": lambda tier: pk_jobs("C16", tier),
    "required_witnesses": ["C16:combiner-output-checked", "C16:splitter-output-checked"],
    "nontrivial_witnesses": ["complete"],
    "twin": lambda tier: ("vfy.m2p", "pk", dict(props=("C16",), recipe=(1, 1), n_pallets=1, twin=True)),
    "bounds": {"quick": "recipes (1,1) (1,2) (1,3) (1,1,1) (1,0,1), 2-3 pallets, 1-2 splitter out-edges with FIRST_AVAILABLE / ROUND_ROBIN / constant policy, blocking and non-blocking, conveyor / fleet edges next to Splitter and Combiner (index policies), two-stage packing, splitter with two feeds",
               "thorough": "also (1,2,2), 3 pallets, generator policy"},
    "outside": "recipe entries 0 (the combiner crashes on them: not a documented use), more than 3 in-edges",
}

# the pallet scenarios also serve C03 / C08 / C09 / C10 / C17 / C18
_c10_jobs = PROPS["C10"]["jobs"]
PROPS["C10"]["jobs"] = lambda tier: _c10_jobs(tier) + pk_jobs("C10", tier, names=["r11", "r12", "r13-cap1", "r111", "r11-rr2", "two-stage-r11-r12", "r12-fa2", "r11-rr2-blocked"])
_c09_jobs = PROPS["C09"]["jobs"]
PROPS["C09"]["jobs"] = lambda tier: _c09_jobs(tier) + pk_jobs("C09", tier, names=["r12-nonblocking", "r13-nonblocking-split", "r11", "r12-nb-idx-cconv-out", "r12-nb-fa-cconv-out", "r11-nb-idx-cconv-mid", "r13-nb-rr2-split", "r12-nb-idx-split"]) + srcfan_jobs("C09", tier)
_c18_jobs = PROPS["C18"]["jobs"]
PROPS["C18"]["jobs"] = lambda tier: _c18_jobs(tier) + pk_jobs("C18", tier, names=["r11", "r12", "r12-comb-only", "r12-nb-idx-split", "r13-nb-rr2-split", "r12-nonblocking"], extra_kw={"until": "sym"})
_c03_jobs = PROPS["C03"]["jobs"]
PROPS["C03"]["jobs"] = lambda tier: _c03_jobs(tier) + pk_jobs("C03", tier, names=["r11", "r12", "r11-rr2", "r12-nonblocking", "r12-comb-only", "r11-lifo-mid", "r12-idx-cconv-out", "r12-nb-idx-cconv-out", "r11-nb-idx-cconv-mid", "r11-idx-fleet-mid", "two-stage-r11-r12", "two-stage-r11-r11-slow-consumer"])
_c08_jobs = PROPS["C08"]["jobs"]
PROPS["C08"]["jobs"] = lambda tier: _c08_jobs(tier) + pk_jobs("C08", tier, names=["r11", "r12", "r111", "r11-rr2", "r11-split-in-idx", "r12-blocked-out", "r11-varying-consumer", "no-combiner-rr"])
PROPS["C08"]["required_witnesses"] = PROPS["C08"]["required_witnesses"] + ["C08:combiner-residence-checked"]
_c17_jobs = PROPS["C17"]["jobs"]
PROPS["C17"]["jobs"] = lambda tier: _c17_jobs(tier) + pk_jobs("C17", tier, names=["r11", "r12", "r11-rr2", "r11-rr2-blocked", "r12-fa2", "no-combiner-rr", "r12-blocked-out", "r12-nb-idx-split"], extra_kw={"until": "sym"}) + pk_jobs(
    "C17", tier, names=["r11"], extra_kw={"until": "sym", "setup": 1})
PROPS["C17"]["required_witnesses"] = PROPS["C17"]["required_witnesses"] + ["C17:finalised@Splitter", "C17:finalised@Combiner", "selftest-row"]
_c17_jobs2 = PROPS["C17"]["jobs"]
PROPS["C17"]["jobs"] = lambda tier: _c17_jobs2(tier) + [
    {"name": "M2/selftest/test_machine-rows", "spec": ("vfy.m2s", "selftest", dict(T=40 if tier == "quick" else 120)), "budget_s": 60, "validate_every": 1,
     "bounds": "the 12 parameter rows of tests/test_machine.py::test_pipeline_stats as degenerate symbolic ranges; every path is compared with a plain-number run"}]


def combo_cfgs(tier):
    q = tier == "quick"
    kinds = ["buffer", "fleet", "sconv", "cconv"]
    C = {}

    def light(cfg):
        # periodic components (fleet timer, slotted conveyor ticker) interleave with every symbolic time: keep those runs small
        if any(cfg.get(k) in ("fleet", "sconv") for k in ("e1", "e2")):
            cfg.setdefault("sym", ("pd",))
            cfg.setdefault("n_items", 2)
        return cfg
    for a in kinds:
        for b in kinds:
            C[f"{a}-{b}"] = light(dict(e1=a, e2=b))
    for b in kinds:
        C[f"nbmachine-buffer-{b}"] = light(dict(e1="buffer", e2=b, blocking=False))
        C[f"nbmachine-rr-{b}"] = light(dict(e1="buffer", e2=b, blocking=False, out_sel="ROUND_ROBIN", n_out=2))
    for a in kinds:
        C[f"nbsource-fa-{a}"] = light(dict(e1=a, e2="buffer", src_blocking=False, src_sel="FIRST_AVAILABLE"))
        C[f"nbsource-idx-{a}"] = light(dict(e1=a, e2="buffer", src_blocking=False))
    for a in kinds:
        C[f"w2-2src-{a}"] = light(dict(e1=a, e2=a, w=2, n_src=2, n_items=2))
        C[f"w2-2src-buffer-{a}-cap1"] = light(dict(e1="buffer", e2=a, w=2, n_src=2, n_items=2, cap2=1))
    C["ctor-edges-buffer-buffer"] = dict(e1="buffer", e2="buffer", order="ctor-edges")
    C["ctor-edges-fanin-rr"] = dict(e1="buffer", e2="buffer", order="ctor-edges", n_src=2, in_sel="ROUND_ROBIN", n_items=2)
    C["ctor-edges-fanout-w2"] = dict(e1="buffer", e2="buffer", order="ctor-edges", n_out=2, w=2, cap2=1)
    C["fleet-delay0-w2-tie"] = dict(e1="buffer", e2="fleet", w=2, n_src=2, n_items=2, sym=("pd",), fdelay=0)
    C["edges-first-buffer-cconv"] = dict(e1="buffer", e2="cconv", order="edges-first")
    C["edges-first-cconv-buffer"] = dict(e1="cconv", e2="buffer", order="edges-first", w=2)
    C["rr-in-buffer"] = dict(e1="buffer", e2="buffer", n_src=2, in_sel="ROUND_ROBIN", n_items=2)
    C["rr-out-cconv"] = dict(e1="buffer", e2="cconv", n_out=2, out_sel="ROUND_ROBIN")
    C["fa-2out-cconv-w2"] = dict(e1="buffer", e2="cconv", n_out=2, w=2, n_src=2, n_items=2)
    C["zero-buffer-delay"] = dict(e1="buffer", e2="buffer", sym=("iat", "pd", "ed"))
    C["nonacc-cconv"] = dict(e1="cconv", e2="cconv", acc=0)
    C["nonacc-sconv"] = light(dict(e1="sconv", e2="buffer", acc=0))
    if not q:
        for a in kinds:
            for b in kinds:
                C[f"w2-{a}-{b}"] = light(dict(e1=a, e2=b, w=2, n_src=2, n_items=2))
                C[f"nb-{a}-{b}"] = light(dict(e1=a, e2=b, blocking=False, src_blocking=False))
        for b in kinds:
            C[f"fa-2out-{b}"] = light(dict(e1="buffer", e2=b, n_out=2, w=2, n_src=2, n_items=2))
            C[f"edges-first-{b}"] = light(dict(e1=b, e2=b, order="edges-first"))
    return C


def _jobs_c20(tier):
    q = tier == "quick"
    jobs = []
    for name, cfg in combo_cfgs(tier).items():
        kw = dict(cfg)
        kw["props"] = ("C20",)
        periodic = any(cfg.get(k) in ("fleet", "sconv") for k in ("e1", "e2"))
        jobs.append({"name": "M2/combo/" + name, "spec": ("vfy.m2s", "combo", kw), "budget_s": (6 if periodic else 10) if q else 30, "bounds": str(cfg), "validate_every": 25})
    for name in ["r11", "r12-nonblocking", "r11-rr2", "r12-lifo-items", "r111-itemdelay", "r12-idx-cconv-out", "r12-rr2-cconv-out", "r12-idx-sconv-out", "r12-nb-idx-cconv-out",
                 "r12-nb-fa-cconv-out", "r12-nb-idx-sconv-out", "r11-idx-cconv-mid", "r11-nb-idx-cconv-mid", "r11-idx-sconv-mid", "r11-idx-fleet-mid"]:
        kw = dict(pk_cfgs(tier)[name])
        kw["props"] = ("C20",)
        jobs.append({"name": "M2/pk/" + name, "spec": ("vfy.m2p", "pk", kw), "budget_s": 10 if q else 60, "bounds": str(kw)})
    jobs.append({"name": "M0/invalid-configurations", "spec": ("vfy.m0", "ctor_scenario", {}), "budget_s": 20, "bounds": "22 kinds of invalid configuration, offending values symbolic where numeric"})
    return jobs


PROPS["C20"] = {
    "explanation": M2_EXPL + "here as a product of component combinations Source -> E1 -> Machine -> E2 -> Sink with E1, E2 in {Buffer, Fleet, slotted conveyor, continuous conveyor}, "
                   "blocking / non-blocking source and machine, FIRST_AVAILABLE / ROUND_ROBIN / constant policies, work_capacity 1-2, 1-2 sources and sinks, both construction orders, plus "
                   "Combiner/Splitter lines; all delays range over [0, d] so zero delays and ties are reachable. Any exception leaving env.step() is a violation (CRASH:<type>@<site>), as are more than "
                   "1200 kernel events in one simulated instant (zero-time livelock) and a decreasing clock. M0: 22 kinds of invalid configuration (non-positive capacity, unknown mode, negative delays, "
                   "non-blocking source with zero inter-arrival time, nodes without their edges, out-of-range constant indices; offending numbers symbolic) must raise at construction or at start-up.",
    "jobs": _jobs_c20,
    "crash_is_violation": True,
    "required_witnesses": ["C20:run-completed", "C20:invalid-config-checked"],
    "nontrivial_witnesses": ["complete"],
    "twin": lambda tier: ("vfy.m2s", "combo", dict(props=("C20",), n_items=1, twin=True)),
    "bounds": {"quick": "52 component combinations (three construction orders) + 15 pallet lines, <=3 items per source (2 with periodic components), 1-3 symbolic delays in [0,2]",
               "thorough": "85 combinations"},
    "outside": "Splitter/Combiner with the FIRST_AVAILABLE policy next to Fleet or conveyor edges (rejected by the library with 'Unsupported edge type'; index policies are inside); graphs with cycles; RANDOM policy",
}
