"""Per-property job tables: which scenarios are explored for which property, at which bounds."""
from __future__ import annotations

import sys

COMMON_ASSUMPTIONS = [
    "simulated times, delays and gaps are exact reals (IEEE-754 rounding is outside the claim); counterexamples are replayed with floats / exact rationals",
    "print() output is discarded; numpy's abs/round/ceil in belt_store/continuous_conveyor are rebound to a shim that dispatches to the symbolic value",
    "z3 decides every branch on a symbolic scalar; 'unknown' aborts the path and is counted (never observed)",
    "bounded nondeterministic choices (next call, token, shape of the constructed state) are enumerated exhaustively within the stated bounds",
]

UNTIMED = ["RPRS", "RRS", "RPRFS"]
TIMED = ["BUF_FIFO", "BUF_LIFO", "RPRFS_TD", "FLEET"]
BELTS = ["SBELT_ACC", "CBELT_ACC", "CBELT_NOACC"]


def m1(store, family, N, K, oracles, budget, name=None, **kw):
    return {"name": name or f"M1/{store}/{family}/N{N}K{K}",
            "spec": ("vfy.m1", "scenario", dict(store=store, family=family, N=N, K=K, oracles=tuple(oracles), **kw)),
            "budget_s": budget,
            "bounds": f"store={store} family={family} items<={N} free_calls={K} {kw}"}


def _jobs_store_family(oracles, family_untimed, family_timed, tier, stores_untimed=UNTIMED, stores_timed=TIMED, belts=BELTS,
                       extra=None):
    jobs = []
    q = tier == "quick"
    for s in stores_untimed:
        jobs.append(m1(s, family_untimed, 3 if q else 4, 2 if q else 3, oracles, 12 if q else 120))
    for s in stores_timed:
        if q:
            jobs.append(m1(s, family_timed, 2, 1, oracles, 12, R2=1, USE=False))
        else:
            jobs.append(m1(s, family_timed, 2, 2, oracles, 150, R2=1, USE=True))
            jobs.append(m1(s, family_timed, 3, 1, oracles, 150, R2=1, USE=True, TR=False))
    for s in belts:
        if q:
            jobs.append(m1(s, family_timed, 2, 1, oracles, 10, R2=1, USE=False))
        else:
            jobs.append(m1(s, family_timed, 2, 2, oracles, 120, R2=1, USE=True))
    if extra:
        jobs.extend(extra(tier))
    return jobs


def twin_m1(store="RPRS", family="retrieval"):
    def f(tier):
        return ("vfy.m1", "scenario", dict(store=store, family=family, N=2, K=1, oracles=("TWIN",), twin=True))
    return f


PROPS = {}

PROPS["C01"] = {
    "explanation": "Bounded symbolic execution of the real store classes (and the edges built on them): a store state is constructed through the public "
                   "API from a symbolic shape, then K solver-chosen calls / kernel steps follow; capacity, delays and time gaps are unbounded z3 "
                   "variables. After every call and kernel event the ledger occupancy (puts minus gets) plus granted-unused space reservations "
                   "must be <= capacity, and a put with a granted reservation must not raise.",
    "jobs": lambda tier: _jobs_store_family(("C01",), "space", "space", tier) + [
        m1("BUFE_FIFO", "space", 2, 1 if tier == "quick" else 2, ("C01",), 10 if tier == "quick" else 90),
        m1("FLEETE", "space", 2, 1 if tier == "quick" else 2, ("C01",), 10 if tier == "quick" else 90)],
    "required_witnesses": ["C01:checked", "step:use", "cancel-granted-put"],
    "nontrivial_witnesses": ["complete"],
    "twin": twin_m1("RPRS", "space"),
    "bounds": {"quick": "<=3 items (<=2 for timed stores) in the constructed state, <=3 outstanding space reservations, 2 (1) free calls; capacity unbounded symbolic",
               "thorough": "<=4 items (<=3 timed), 3 (2) free calls"},
    "outside": "more items / longer free suffixes than the bounds; factories (covered by the C03 monitor)",
}

PROPS["C02"] = {
    "explanation": "Same engine and scenarios as C01 on the retrieval side: identity ledger put = got + inside (inside read from items/ready_items) after every "
                   "call; every granted retrieval is backed by its own free available item (reference binding); a get with a granted reservation never raises.",
    "jobs": lambda tier: _jobs_store_family(("C02",), "retrieval", "retrieval", tier),
    "required_witnesses": ["C02:get-checked", "cancel-granted-get"],
    "nontrivial_witnesses": ["complete"],
    "twin": twin_m1("BUF_FIFO", "retrieval"),
    "bounds": {"quick": "<=3 retrievable items (<=2 + <=1 in transit for timed stores), <=4 retrieval reservations any subset cancelled, 2 (1) free calls",
               "thorough": "<=4 (<=3) items, 3 (2) free calls"},
    "outside": "longer histories",
}

PROPS["C04"] = {
    "explanation": "Same engine; at every quiescent point (after every call for time-less stores, after every simulated instant has been drained for timed "
                   "stores) no space request is pending while ledger occupancy + granted-unused space reservations < capacity, and no retrieval request is "
                   "pending while an available, unbound item exists (availability from the harness's own put time + delay).",
    "jobs": lambda tier: _jobs_store_family(("C04",), "both", "both", tier),
    "required_witnesses": ["C04:pending-put-checked", "C04:pending-get-checked"],
    "nontrivial_witnesses": ["complete"],
    "twin": twin_m1("BUF_FIFO", "both"),
    "bounds": {"quick": "as C02 plus <=2 outstanding space reservations", "thorough": "as C02 thorough"},
    "outside": "belt admission during stalls (C13)",
}

PROPS["C05"] = {
    "explanation": "Same engine; request priorities are unbounded z3 integers. Whenever a waiting request is granted while another stays waiting on the same "
                   "side, the granted one must be strictly ahead in (priority, arrival). PriorityReqStore/SortedQueue is checked with symbolic priorities "
                   "and symbolic request times.",
    "jobs": lambda tier: _jobs_c05(tier),
    "required_witnesses": ["C05:order-checked"],
    "nontrivial_witnesses": ["C05:order-checked"],
    "twin": twin_m1("RPRS", "prio_get"),
    "bounds": {"quick": "<=4 waiting requests per side, 2 free calls; priorities unbounded", "thorough": "<=5 waiting requests, 3 free calls"},
    "outside": "more simultaneous waiters",
}


def _jobs_c05(tier):
    q = tier == "quick"
    jobs = []
    for s in ["RPRS", "RPRFS", "FLEET"]:
        jobs.append(m1(s, "prio_get", 3 if q else 4, 2 if q else 3, ("C05",), 12 if q else 120))
        jobs.append(m1(s, "prio_put", 3 if q else 4, 2 if q else 3, ("C05",), 12 if q else 120))
    for s in ["RRS", "BUF_FIFO", "SBELT_ACC", "CBELT_ACC"]:
        jobs.append(m1(s, "prio_get", 3, 2 if q else 3, ("C05",), 10 if q else 90))
        if s in ("RRS", "BUF_FIFO"):
            jobs.append(m1(s, "prio_put", 3, 2 if q else 3, ("C05",), 10 if q else 90))
    jobs.append({"name": "M0/PriorityReqStore", "spec": ("vfy.m0", "prs_scenario", dict(n=3 if q else 4)), "budget_s": 15 if q else 120,
                 "bounds": "PriorityReqStore: n requests per side with symbolic priorities and symbolic request times"})
    return jobs


PROPS["C06"] = {
    "explanation": "Same engine; the harness keeps the order in which items became available and, when a retrieval reservation is granted, computes the "
                   "reference binding (FIFO: earliest available unbound item; LIFO: latest; filter store: earliest unbound item satisfying the filter, "
                   "thresholds symbolic). The item later returned by get(token) must be the reference item, also after cancellations of granted reservations.",
    "jobs": lambda tier: _jobs_store_family(("C06",), "retrieval", "retrieval", tier),
    "required_witnesses": ["C06:get-checked", "cancel-granted-get"],
    "nontrivial_witnesses": ["complete"],
    "twin": twin_m1("BUF_LIFO", "retrieval"),
    "bounds": {"quick": "as C02", "thorough": "as C02 thorough"},
    "outside": "ties in availability are ordered by put order (the order SimPy fires equal-time timers)",
}


def spec_job(name, mod, fac, budget, bounds="", **kw):
    return {"name": name, "spec": (mod, fac, kw), "budget_s": budget, "bounds": bounds or str(kw)}


def _jobs_c07(tier):
    q = tier == "quick"
    jobs = []
    for s in ["RPRS", "RRS", "RPRFS"]:
        jobs.append(spec_job(f"M1/C07/{s}", "vfy.m1", "scenario_c07", 12 if q else 150, store=s, N=2, K=0 if q else 1, T=2 if q else 3))
    for s in ["BUF_FIFO", "BUF_LIFO", "FLEET", "SBELT_ACC", "CBELT_ACC", "CBELT_NOACC"]:
        jobs.append(spec_job(f"M1/C07/{s}", "vfy.m1", "scenario_c07", 14 if q else 150, store=s, N=1 if q else 2, K=0 if q else 1, T=2))
    return jobs


PROPS["C07"] = {
    "explanation": "Same engine; a populated store state (items, used / cancelled / granted / pending reservations of two caller processes on both sides) is "
                   "constructed through the public API, then ONE ill-formed call out of 18 kinds is made (put/get with an unknown, foreign, used, cancelled, "
                   "pending or wrong-kind token; cancel of an unknown, used or cancelled token). It must raise RuntimeError, a snapshot of the store's lists, "
                   "of every token's triggered flag and of the number of scheduled kernel events must be unchanged, and every still-granted reservation "
                   "must work afterwards.",
    "jobs": _jobs_c07,
    "required_witnesses": ["C07:ill-formed:put-other-process-token", "C07:ill-formed:get-used-token", "C07:ill-formed:cancel-get-unknown-token",
                           "C07:ill-formed:put-cancelled-token", "C07:ill-formed:get-with-put-token"],
    "nontrivial_witnesses": ["complete"],
    "twin": lambda tier: ("vfy.m1", "scenario_c07", dict(store="RPRS", N=1, K=0, T=1, twin=True)),
    "bounds": {"quick": "<=2 items (1 for timed stores), <=2 reservations per side, one ill-formed call of 18 kinds, two caller processes taking turns",
               "thorough": "<=2 items, <=3 reservations per side, one optional free call before the ill-formed call"},
    "outside": "sequences of several ill-formed calls",
}


def _jobs_c11(tier):
    q = tier == "quick"
    jobs = []
    for s in ["BUFE_FIFO", "BUFE_LIFO", "BUFE_FIFO_GEN", "BUFE_FIFO_CONST", "FLEETE"]:
        if q:
            jobs.append(spec_job(f"M1/C11/{s}", "vfy.m1", "scenario_c11", 14, store=s, N=2, K=1, R2=0, RMAX=2, S=1))
        else:
            jobs.append(spec_job(f"M1/C11/{s}", "vfy.m1", "scenario_c11", 200, store=s, N=2, K=2, R2=1, RMAX=3, S=2))
    return jobs


PROPS["C11"] = {
    "explanation": "Same engine, driving the Buffer and Fleet edge objects: after the constructed prefix, after every free call and at the final quiescent point "
                   "can_put()/can_get() are compared with a probe reservation issued at that instant (granted at once or not; the probe is cancelled again), "
                   "occupancy()/get_occupancy() with the ledger, and, for Buffer, retrievability with the harness's own put time + delay (symbolic reals, zero "
                   "included; constant, callable and generator delay sources; the source must be consulted exactly once per put). A get before t+d is a violation.",
    "jobs": _jobs_c11,
    "required_witnesses": ["C11:probe", "C02:get-checked"],
    "nontrivial_witnesses": ["complete"],
    "twin": lambda tier: ("vfy.m1", "scenario_c11", dict(store="BUFE_FIFO", N=1, K=0, R2=0, RMAX=1, S=0, twin=True)),
    "bounds": {"quick": "<=2 ready + <=1 in-transit items, <=2 retrieval and <=1 space reservations, 1 free call", "thorough": "<=3 retrieval, <=2 space reservations, 2 free calls"},
    "outside": "Fleet availability times (C14)",
}


def trace_functions_for(jobs):
    """run one path of up to 6 jobs under a profiler and collect the /repo functions that executed"""
    from . import explore, symx, simenv
    seen_specs = set()
    real = sys.stdout
    sys.stdout = explore._Null()
    try:
        n = 0
        for job in jobs:
            key = (job["spec"][0], job["spec"][1], job["spec"][2].get("store", job["spec"][2].get("scn", "")))
            if key in seen_specs:
                continue
            seen_specs.add(key)
            fn = explore.build(job["spec"])
            simenv.trace_functions(symx.run_path, fn, (), None)
            n += 1
            if n >= 14:
                break
    finally:
        sys.stdout = real
    return simenv.repo_functions_seen()
