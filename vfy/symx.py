"""symx - a small dynamic symbolic executor for scalar inputs.

SymReal (a float subclass) and SymInt (an int subclass) carry linear terms over
z3 variables.  Every comparison / bool() / index / ceil on them is decided by
z3 under the current path condition; when both outcomes are feasible the path
forks.  Everything else (the repository classes, SimPy's kernel, heapq,
list.sort) runs natively and calls back into __lt__/__eq__ from C.

Exploration is depth-first by deterministic re-execution of a harness function
`fn(ctx)`; see explore.py for the parallel driver.
"""
from __future__ import annotations

import math
import time
import zlib
from fractions import Fraction

import z3

# --------------------------------------------------------------------------
# exceptions (BaseException so that repository `except Exception` cannot eat them)


class PathStop(BaseException):
    """Base of all engine control-flow exceptions."""


class PathAbort(PathStop):
    """Path cannot be continued symbolically (non-linear term, C sink...)."""


class PathInfeasible(PathStop):
    """An assume() failed: this path is outside the scenario."""


class PathViolation(PathStop):
    """An oracle failed (ctx.fail)."""


class PathBudget(PathStop):
    """Step budget of a path exhausted."""


class ReplayDivergence(PathStop):
    """Deterministic replay did not meet the recorded branch."""


# --------------------------------------------------------------------------
# linear forms

OP_LE, OP_LT, OP_EQ, OP_NE = 0, 1, 2, 3
_ZERO = 0


def _frac(x):
    """exact value of a concrete number: int when integral (fast), Fraction otherwise"""
    if type(x) is int:
        return x
    if isinstance(x, Fraction):
        return x.numerator if x.denominator == 1 else x
    if isinstance(x, bool):
        return int(x)
    if isinstance(x, int):
        return int.__int__(x)
    if isinstance(x, float):
        if x != x or x in (math.inf, -math.inf):
            raise PathAbort("non-finite constant in arithmetic")
        if x == int(x) and abs(x) < 1e15:
            return int(x)
        return Fraction(x)
    raise TypeError(type(x))


def _norm(q):
    if type(q) is Fraction and q.denominator == 1:
        return q.numerator
    return q


class Lin:
    """c + sum coef_i * var_i ; t is a sorted tuple of (vid, coef)."""
    __slots__ = ("c", "t")

    def __init__(self, c, t=()):
        self.c = c
        self.t = t

    def is_const(self):
        return not self.t

    def add(self, o, sign=1):
        if not o.t:
            return Lin(self.c + sign * o.c, self.t)
        if not self.t:
            if sign == 1:
                return Lin(self.c + o.c, o.t)
            return Lin(self.c - o.c, tuple((v, -k) for v, k in o.t))
        d = dict(self.t)
        for v, k in o.t:
            nk = d.get(v, _ZERO) + sign * k
            if nk == 0:
                d.pop(v, None)
            else:
                d[v] = nk
        return Lin(self.c + sign * o.c, tuple(sorted(d.items())))

    def scale(self, k):
        if k == 0:
            return Lin(0)
        if k == 1:
            return self
        return Lin(_norm(self.c * k), tuple((v, _norm(c * k)) for v, c in self.t))

    def eval(self, model):
        s = self.c
        for v, k in self.t:
            s += k * model[v]
        return s

    def key(self):
        return (self.c, self.t)

    def __repr__(self):
        parts = [str(self.c)] if self.c or not self.t else []
        for v, k in self.t:
            parts.append(f"{k}*v{v}")
        return " + ".join(parts)


def lin_of(x):
    """Linear form of any number (symbolic or concrete)."""
    if isinstance(x, (SymReal, SymInt)):
        return x.lin
    return Lin(_frac(x))


# --------------------------------------------------------------------------
# context

_CTX = None  # the active context (one per process)


def ctx():
    return _CTX


class Ctx:
    """One symbolic path execution."""

    def __init__(self, prefix=(), model=None, max_branch=200000, seed=0):
        self.prefix = list(prefix)
        self.pos = 0
        self.trace = []          # entries: ('b', keyhash, value, forked) | ('c', n, value) | ('v', value)
        self.alternatives = []   # (trace_prefix, model) to explore later
        self.solver = None       # created lazily at the first query
        self.pending = []        # SMT-LIB assertion strings not yet handed to the solver
        self.ndecl = 0           # number of variables already declared to the solver
        self.vars = []           # vid -> (name, is_int)
        self.lo = []             # vid -> lower bound (Fraction) or None
        self.hi = []
        self.model = dict(model) if model else {}
        self.known = {}          # atom key -> bool
        self.n_queries = 0
        self.solver_s = 0.0
        self.n_forks = 0
        self.witness = {}
        self.logs = []
        self.notes = {}
        self.max_branch = max_branch
        self.seed = seed
        self.symbolic = True
        self.violation = None
        self.pc_atoms = []       # (lin, op, value) for forks, for reporting
        self.findings = []       # soft findings recorded on this path (label, info)
        self.quot = {}           # vid -> (num Lin, den Lin) for opaque quotients
        self.inputs = []         # vids created by real()/int(), in creation order

    # ---- variables -------------------------------------------------------
    def _newvar(self, name, is_int, default):
        vid = len(self.vars)
        name = f"{name}#{vid}"
        self.vars.append((name, is_int))
        self.lo.append(None)
        self.hi.append(None)
        if vid not in self.model:
            self.model[vid] = _frac(Fraction(default))
        return vid

    def real(self, name, lo=None, hi=None, default=None):
        if default is None:
            default = lo if lo is not None else (hi if hi is not None else 0)
            if lo is not None and hi is not None:
                default = (Fraction(lo) + Fraction(hi)) / 2
            elif lo is not None:
                default = Fraction(lo) + 1
        vid = self._newvar(name, False, default)
        self.inputs.append(vid)
        x = SymReal(Lin(0, ((vid, 1),)))
        self._bounds(vid, lo, hi)
        return x

    def int(self, name, lo=None, hi=None, default=None):
        if default is None:
            default = lo if lo is not None else (hi if hi is not None else 0)
        vid = self._newvar(name, True, default)
        self.inputs.append(vid)
        x = SymInt(Lin(0, ((vid, 1),)))
        self._bounds(vid, lo, hi)
        return x

    def _bounds(self, vid, lo, hi):
        if lo is not None:
            lo = _frac(lo)
            self.lo[vid] = lo
            self.pending.append(f"(assert (>= {self._sv(vid)} {_sval(lo)}))")
            if self.model[vid] < lo:
                self.model[vid] = lo
        if hi is not None:
            hi = _frac(hi)
            self.hi[vid] = hi
            self.pending.append(f"(assert (<= {self._sv(vid)} {_sval(hi)}))")
            if self.model[vid] > hi:
                self.model[vid] = hi

    # ---- SMT-LIB translation (strings: the z3py expression layer is too slow) -----------
    def _sv(self, vid):
        return f"(to_real v{vid})" if self.vars[vid][1] else f"v{vid}"

    def _slin(self, lin):
        parts = []
        for v, k in lin.t:
            parts.append(self._sv(v) if k == 1 else f"(* {_sval(k)} {self._sv(v)})")
        if lin.c != 0 or not parts:
            parts.append(_sval(lin.c))
        return parts[0] if len(parts) == 1 else "(+ " + " ".join(parts) + ")"

    def _satom(self, lin, op, value=True):
        e = self._slin(lin)
        if op == OP_LE:
            a = f"(<= {e} 0.0)"
        elif op == OP_LT:
            a = f"(< {e} 0.0)"
        elif op == OP_EQ:
            a = f"(= {e} 0.0)"
        else:
            a = f"(not (= {e} 0.0))"
        return a if value else f"(not {a})"

    def _flush(self, extra=None):
        if self.solver is None:
            self.solver = z3.Solver()
        body = []
        for vid in range(self.ndecl, len(self.vars)):
            body.append(f"(declare-const v{vid} {'Int' if self.vars[vid][1] else 'Real'})")
        self.ndecl = len(self.vars)
        body.extend(self.pending)
        self.pending = []
        if body:
            self.solver.from_string("\n".join(body))
        if extra:
            self.solver.push()
            self.solver.from_string(f"(assert {extra})")

    def _interval(self, lin):
        """(min, max) of lin over the declared variable bounds; None for unbounded"""
        mn = mx = lin.c
        for v, k in lin.t:
            lo, hi = self.lo[v], self.hi[v]
            if k > 0:
                mn = None if (mn is None or lo is None) else mn + k * lo
                mx = None if (mx is None or hi is None) else mx + k * hi
            else:
                mn = None if (mn is None or hi is None) else mn + k * hi
                mx = None if (mx is None or lo is None) else mx + k * lo
            if mn is None and mx is None:
                break
        return mn, mx

    # ---- the core: decide an atom ---------------------------------------
    def branch(self, lin, op):
        """Truth value of (lin op 0) on this path; forks when undetermined."""
        if not lin.t:
            c = lin.c
            return (c <= 0) if op == OP_LE else (c < 0) if op == OP_LT else (c == 0) if op == OP_EQ else (c != 0)
        if op == OP_NE:
            return not self.branch(lin, OP_EQ)
        if self.quot:
            for v, _k in lin.t:
                if v in self.quot:
                    raise PathAbort("branch on an opaque quotient")
        key = (op, lin.c, lin.t)
        k = self.known.get(key)
        if k is not None:
            return k
        # replaying a recorded prefix?
        if self.pos < len(self.prefix):
            ent = self.prefix[self.pos]
            self.pos += 1
            if ent[0] != 'b' or ent[1] != _khash(key):
                raise ReplayDivergence(f"expected {ent!r}, got branch {key!r}")
            val, forked = ent[2], ent[3]
            self.trace.append(ent)
            if forked:
                self.pending.append(f"(assert {self._satom(lin, op, val)})")
                self.pc_atoms.append((lin, op, val))
            self._learn(lin, op, val)
            if self.pos == len(self.prefix) and not self._model_ok():
                self._refresh_model()
            return val
        if len(self.trace) > self.max_branch:
            raise PathBudget("branch budget")
        # cheap sound pre-check with the declared variable bounds
        mn, mx = self._interval(lin)
        dec = None
        if op == OP_LE:
            if mx is not None and mx <= 0:
                dec = True
            elif mn is not None and mn > 0:
                dec = False
        elif op == OP_LT:
            if mx is not None and mx < 0:
                dec = True
            elif mn is not None and mn >= 0:
                dec = False
        else:
            if (mn is not None and mn > 0) or (mx is not None and mx < 0):
                dec = False
        if dec is not None:
            self._learn(lin, op, dec)
            self.trace.append(('b', _khash(key), dec, False))
            return dec
        mval = _holds(lin.eval(self.model), op)
        # model satisfies (atom == mval): is the other side feasible?
        other = self._check(self._satom(lin, op, not mval))
        if other is None:
            self._learn(lin, op, mval)
            self.trace.append(('b', _khash(key), mval, False))
            return mval
        # fork: follow the side our model is on, queue the other
        self.n_forks += 1
        alt = self.trace + [('b', _khash(key), (not mval), True)]
        self.alternatives.append((alt, other))
        self.trace.append(('b', _khash(key), mval, True))
        self.pending.append(f"(assert {self._satom(lin, op, mval)})")
        self.pc_atoms.append((lin, op, mval))
        self._learn(lin, op, mval)
        return mval

    def _learn(self, lin, op, val):
        kn = self.known
        kn[(op, lin.c, lin.t)] = val
        if op == OP_LT and val:
            kn[(OP_LE, lin.c, lin.t)] = True
            kn[(OP_EQ, lin.c, lin.t)] = False
        elif op == OP_LE and not val:
            kn[(OP_LT, lin.c, lin.t)] = False
            kn[(OP_EQ, lin.c, lin.t)] = False
        elif op == OP_EQ and val:
            kn[(OP_LE, lin.c, lin.t)] = True
            kn[(OP_LT, lin.c, lin.t)] = False
        # mirrored form: -lin
        neg = lin.scale(-1)
        if op == OP_LE:      # lin<=0 == val  -> (-lin < 0) == not val
            kn[(OP_LT, neg.c, neg.t)] = not val
            if not val:
                kn[(OP_LE, neg.c, neg.t)] = True
        elif op == OP_LT:    # lin<0 == val -> (-lin <= 0) == not val
            kn[(OP_LE, neg.c, neg.t)] = not val
            if val:
                kn[(OP_LT, neg.c, neg.t)] = False
        else:
            kn[(OP_EQ, neg.c, neg.t)] = val
            if val:
                kn[(OP_LE, neg.c, neg.t)] = True
                kn[(OP_LT, neg.c, neg.t)] = False

    def _check(self, extra):
        """sat-check pc ∧ extra; returns a model dict or None (unsat)."""
        t0 = time.perf_counter()
        self._flush(extra)
        s = self.solver
        r = s.check()
        self.n_queries += 1
        out = None
        if r == z3.sat:
            out = self._extract_model(s.model())
        elif r != z3.unsat:
            s.pop()
            self.solver_s += time.perf_counter() - t0
            raise PathAbort("solver returned unknown")
        s.pop()
        self.solver_s += time.perf_counter() - t0
        return out

    def _extract_model(self, m):
        out = {}
        vals = {}
        for d in m.decls():
            vals[d.name()] = m[d]
        for vid, (name, is_int) in enumerate(self.vars):
            v = vals.get(f"v{vid}")
            if v is None:
                q = self.model.get(vid, _ZERO)
                lo, hi = self.lo[vid], self.hi[vid]
                if lo is not None and q < lo:
                    q = lo
                if hi is not None and q > hi:
                    q = hi
                out[vid] = q
            elif is_int:
                out[vid] = Fraction(v.as_long())
            else:
                out[vid] = Fraction(v.numerator_as_long(), v.denominator_as_long())
        return out

    def _model_ok(self):
        for lin, op, val in self.pc_atoms:
            try:
                if _holds(lin.eval(self.model), op) != val:
                    return False
            except KeyError:
                return False
        return True

    def _refresh_model(self):
        t0 = time.perf_counter()
        self._flush()
        if self.solver is None:
            self.solver = z3.Solver()
        r = self.solver.check()
        self.n_queries += 1
        self.solver_s += time.perf_counter() - t0
        if r != z3.sat:
            raise ReplayDivergence("prefix path condition is not satisfiable")
        new = self._extract_model(self.solver.model())
        self.model.update(new)

    # ---- nondeterministic choices -----------------------------------------
    def choice(self, n, label=""):
        """Bounded nondeterministic choice in range(n): forks over all values."""
        if n <= 1:
            return 0
        if self.pos < len(self.prefix):
            ent = self.prefix[self.pos]
            self.pos += 1
            if ent[0] != 'c' or ent[1] != n:
                raise ReplayDivergence(f"expected {ent!r}, got choice({n}) {label}")
            self.trace.append(ent)
            if self.pos == len(self.prefix) and not self._model_ok():
                self._refresh_model()
            return ent[2]
        order = list(range(n))
        if self.seed:
            # deterministic permutation depending on seed and depth
            r = (self.seed * 2654435761 + len(self.trace) * 40503) & 0xFFFFFFFF
            k = r % n
            order = order[k:] + order[:k]
        for v in order[1:]:
            self.alternatives.append((self.trace + [('c', n, v)], dict(self.model)))
        self.trace.append(('c', n, order[0]))
        return order[0]

    def _pick(self, compute):
        """a value picked from the current model; recorded so that replays ask the same questions"""
        if self.pos < len(self.prefix):
            ent = self.prefix[self.pos]
            self.pos += 1
            if ent[0] != 'v':
                raise ReplayDivergence(f"expected {ent!r}, got a model pick")
            self.trace.append(ent)
            return ent[1]
        v = compute()
        self.trace.append(('v', v))
        return v

    def concretize_int(self, lin, what="index"):
        """Fork over the feasible integer values of an (integer-valued) term."""
        while True:
            iv = self._pick(lambda: math.floor(lin.eval(self.model)))
            if self.branch(lin.add(Lin(iv), -1), OP_EQ):
                return iv

    def ceil(self, lin):
        while True:
            k = self._pick(lambda: math.ceil(lin.eval(self.model)))
            # k-1 < x <= k
            if self.branch(lin.add(Lin(k), -1), OP_LE) and not self.branch(lin.add(Lin(k - 1), -1), OP_LE):
                return k

    def floor(self, lin):
        while True:
            k = self._pick(lambda: math.floor(lin.eval(self.model)))
            # k <= x < k+1
            if self.branch(Lin(k).add(lin, -1), OP_LE) and self.branch(lin.add(Lin(k + 1), -1), OP_LT):
                return k

    def quotient(self, num, den):
        """opaque term standing for num/den (den symbolic)."""
        vid = self._newvar("quot", False, 0)
        self.quot[vid] = (num, den)
        return SymReal(Lin(0, ((vid, 1),)))

    def quot_parts(self, x):
        """(num, den) if x is exactly one opaque quotient, else None."""
        if isinstance(x, SymReal) and len(x.lin.t) == 1 and x.lin.c == 0 and x.lin.t[0][1] == 1 and x.lin.t[0][0] in self.quot:
            n, d = self.quot[x.lin.t[0][0]]
            return SymReal._mk(n), SymReal._mk(d)
        return None

    # ---- harness services ---------------------------------------------------
    def assume(self, cond):
        if not cond:
            raise PathInfeasible()

    def fail(self, label, info=None):
        self.violation = (label, info)
        raise PathViolation(label)

    def finding(self, label, info=None):
        """soft violation: recorded, path continues."""
        self.findings.append((label, info))

    def hit(self, label, n=1):
        self.witness[label] = self.witness.get(label, 0) + n

    def log(self, *entry):
        self.logs.append(entry)

    # comparisons that tolerate float noise in concrete replays
    def eq(self, a, b):
        return a == b

    def le(self, a, b):
        return a <= b

    def lt(self, a, b):
        return a < b

    def value(self, x):
        """model value of x (Fraction) - for reporting only."""
        if isinstance(x, (SymReal, SymInt)):
            return x.lin.eval(self.model)
        return x

    def model_named(self):
        return {self.vars[v][0]: self.model[v] for v in range(len(self.vars))}

    def nice_model(self, bits=(0, 1, 2, 3, 4, 6, 8, 12)):
        """A model of the final path condition with small dyadic values."""
        self._flush()
        if self.solver is None:
            self.solver = z3.Solver()
        s = self.solver
        s.push()
        try:
            if s.check() != z3.sat:
                return dict(self.model)
            cur = self._extract_model(s.model())
            for vid, (name, is_int) in enumerate(self.vars):
                if vid in self.quot:
                    continue
                if is_int:
                    cand = [cur[vid]]
                else:
                    cand = []
                    for b in bits:
                        q = Fraction(round(cur[vid] * (1 << b)), 1 << b)
                        if q not in cand:
                            cand.append(q)
                    cand.append(cur[vid])
                for q in cand:
                    a = f"(assert (= {self._sv(vid)} {_sval(q)}))"
                    s.push()
                    s.from_string(a)
                    self.n_queries += 1
                    if s.check() == z3.sat:
                        cur = self._extract_model(s.model())
                        s.pop()
                        s.from_string(a)
                        break
                    s.pop()
            return cur
        finally:
            s.pop()


class ConcreteCtx:
    """Replays a path with plain Python numbers: no engine involved in the code under test."""
    symbolic = False

    def __init__(self, values, choices, tol=1e-9):
        self.values = list(values)   # numbers in creation order
        self.exact = not all(is_dyadic(Fraction(v)) for v in self.values)
        if self.exact:
            tol = 0      # exact rational replay: comparisons are as exact as in the symbolic run
        self.choices = list(choices)
        self.vi = 0
        self.ci = 0
        self.tol = tol
        self.witness = {}
        self.logs = []
        self.notes = {}
        self.violation = None
        self.findings = []
        self.seed = 0

    def real(self, name, lo=None, hi=None, default=None):
        v = self.values[self.vi]
        self.vi += 1
        if self.exact:
            return QReal(v)
        return float(v)

    def int(self, name, lo=None, hi=None, default=None):
        v = self.values[self.vi]
        self.vi += 1
        return int(v)

    def choice(self, n, label=""):
        if n <= 1:
            return 0
        v = self.choices[self.ci]
        self.ci += 1
        return v

    def assume(self, cond):
        if not cond:
            raise PathInfeasible()

    def fail(self, label, info=None):
        self.violation = (label, info)
        raise PathViolation(label)

    def finding(self, label, info=None):
        self.findings.append((label, info))

    def hit(self, label, n=1):
        self.witness[label] = self.witness.get(label, 0) + n

    def log(self, *entry):
        self.logs.append(entry)

    def eq(self, a, b):
        return abs(a - b) <= self.tol

    def le(self, a, b):
        return a <= b + self.tol

    def lt(self, a, b):
        return a < b - self.tol

    def value(self, x):
        return x

    def quot_parts(self, x):
        return None


def _khash(key):
    # not Python's hash(): hash(-1) == hash(-2), and str hashes are salted per process
    return zlib.crc32(repr(key).encode())


def _holds(v, op):
    return (v <= 0) if op == OP_LE else (v < 0) if op == OP_LT else (v == 0) if op == OP_EQ else (v != 0)


def _sval(fr):
    n, d = fr.numerator, fr.denominator
    if d == 1:
        return f"{n}.0" if n >= 0 else f"(- {-n}.0)"
    return f"(/ {n}.0 {d}.0)" if n >= 0 else f"(- (/ {-n}.0 {d}.0))"


# --------------------------------------------------------------------------
# symbolic number types


def _num(x):
    return isinstance(x, (int, float, Fraction)) and not isinstance(x, bool) or isinstance(x, bool)


class _SymBase:
    __slots__ = ()

    def _cmp(self, other, op, swap=False):
        if not isinstance(other, (int, float, Fraction)):
            return NotImplemented
        if isinstance(other, float) and not isinstance(other, SymReal):
            if other != other:
                return False
            if other == math.inf:
                # self ? +inf
                return op in (OP_LE, OP_LT) if not swap else False
            if other == -math.inf:
                return False if not swap else op in (OP_LE, OP_LT)
        a, b = self.lin, lin_of(other)
        d = b.add(a, -1) if swap else a.add(b, -1)
        return _CTX.branch(d, op)

    def __lt__(self, o):
        return self._cmp(o, OP_LT)

    def __le__(self, o):
        return self._cmp(o, OP_LE)

    def __gt__(self, o):
        return self._cmp(o, OP_LT, True)

    def __ge__(self, o):
        return self._cmp(o, OP_LE, True)

    def __eq__(self, o):
        if o is self:
            return True
        if not isinstance(o, (int, float, Fraction)):
            return NotImplemented
        if isinstance(o, float) and not isinstance(o, SymReal) and (o != o or o in (math.inf, -math.inf)):
            return False
        return _CTX.branch(self.lin.add(lin_of(o), -1), OP_EQ)

    def __ne__(self, o):
        r = self.__eq__(o)
        return r if r is NotImplemented else not r

    def __hash__(self):
        return id(self)

    def __bool__(self):
        return not _CTX.branch(self.lin, OP_EQ)

    def __format__(self, spec):
        return "<sym>"

    def __repr__(self):
        return f"<sym {self.lin!r}>"

    __str__ = __repr__

    def __neg__(self):
        return self._mk(self.lin.scale(-1))

    def __pos__(self):
        return self

    def __abs__(self):
        if _CTX.branch(self.lin, OP_LT):
            return self._mk(self.lin.scale(-1))
        return self

    def __ceil__(self):
        return _CTX.ceil(self.lin)

    def __floor__(self):
        return _CTX.floor(self.lin)

    def __trunc__(self):
        if _CTX.branch(self.lin, OP_LT):
            return _CTX.ceil(self.lin)
        return _CTX.floor(self.lin)

    def __int__(self):
        return self.__trunc__()

    def __round__(self, n=None):
        if n is None:
            # round half to even not modelled exactly: floor(x+1/2) (only used in prints)
            return _CTX.floor(self.lin.add(Lin(Fraction(1, 2))))
        return self

    def __float__(self):
        raise PathAbort("float() applied to a symbolic value (C sink)")

    def __reduce__(self):
        raise PathAbort("pickling a symbolic value")


def _arith(a, b, kind):
    """kind: 0 add, 1 sub (a-b), 2 mul, 3 div (a/b)"""
    la, lb = lin_of(a), lin_of(b)
    if kind == 0:
        r = la.add(lb)
    elif kind == 1:
        r = la.add(lb, -1)
    elif kind == 2:
        if not la.t:
            r = lb.scale(la.c)
        elif not lb.t:
            r = la.scale(lb.c)
        else:
            raise PathAbort("non-linear product of two symbolic values")
    else:
        if lb.t:
            return _CTX.quotient(la, lb).lin
        if lb.c == 0:
            raise ZeroDivisionError("division by zero")
        r = la.scale(Fraction(1, lb.c) if type(lb.c) is int else 1 / lb.c)
    return r


def _is_realish(x):
    return isinstance(x, float) or isinstance(x, Fraction)


class SymReal(_SymBase, float):
    __slots__ = ("lin",)

    def __new__(cls, lin):
        o = float.__new__(cls, math.nan)
        o.lin = lin
        return o

    @staticmethod
    def _mk(lin):
        return SymReal(lin) if lin.t else _concrete_real(lin.c)

    def __add__(self, o):
        if not isinstance(o, (int, float, Fraction)):
            return NotImplemented
        return SymReal._mk(_arith(self, o, 0))

    __radd__ = __add__

    def __sub__(self, o):
        if not isinstance(o, (int, float, Fraction)):
            return NotImplemented
        return SymReal._mk(_arith(self, o, 1))

    def __rsub__(self, o):
        if not isinstance(o, (int, float, Fraction)):
            return NotImplemented
        return SymReal._mk(_arith(o, self, 1))

    def __mul__(self, o):
        if not isinstance(o, (int, float, Fraction)):
            return NotImplemented
        return SymReal._mk(_arith(self, o, 2))

    __rmul__ = __mul__

    def __truediv__(self, o):
        if not isinstance(o, (int, float, Fraction)):
            return NotImplemented
        return SymReal._mk(_arith(self, o, 3))

    def __rtruediv__(self, o):
        if not isinstance(o, (int, float, Fraction)):
            return NotImplemented
        return SymReal._mk(_arith(o, self, 3))

    def __floordiv__(self, o):
        q = self.__truediv__(o)
        if isinstance(q, SymReal):
            return _CTX.floor(q.lin)
        return math.floor(q)

    def __mod__(self, o):
        raise PathAbort("modulo on a symbolic value")

    def __pow__(self, o):
        if o == 1:
            return self
        raise PathAbort("power of a symbolic value")

    def is_integer(self):
        raise PathAbort("is_integer on a symbolic value")


def _concrete_real(fr):
    return float(fr)


class SymInt(_SymBase, int):
    """integer-valued symbolic term.  Arithmetic with ints stays SymInt, with floats becomes SymReal."""

    def __new__(cls, lin):
        o = int.__new__(cls, 0)
        o.lin = lin
        return o

    @staticmethod
    def _mk(lin):
        if lin.t:
            return SymInt(lin)
        return int(lin.c) if lin.c.denominator == 1 else float(lin.c)

    def _res(self, lin, o):
        if isinstance(o, SymReal) or (_is_realish(o)):
            return SymReal._mk(lin)
        return SymInt._mk(lin)

    def __add__(self, o):
        if not isinstance(o, (int, float, Fraction)):
            return NotImplemented
        return self._res(_arith(self, o, 0), o)

    __radd__ = __add__

    def __sub__(self, o):
        if not isinstance(o, (int, float, Fraction)):
            return NotImplemented
        return self._res(_arith(self, o, 1), o)

    def __rsub__(self, o):
        if not isinstance(o, (int, float, Fraction)):
            return NotImplemented
        return self._res(_arith(o, self, 1), o)

    def __mul__(self, o):
        if not isinstance(o, (int, float, Fraction)):
            return NotImplemented
        return self._res(_arith(self, o, 2), o)

    __rmul__ = __mul__

    def __truediv__(self, o):
        if not isinstance(o, (int, float, Fraction)):
            return NotImplemented
        return SymReal._mk(_arith(self, o, 3))

    def __rtruediv__(self, o):
        if not isinstance(o, (int, float, Fraction)):
            return NotImplemented
        return SymReal._mk(_arith(o, self, 3))

    def __floordiv__(self, o):
        q = self.__truediv__(o)
        if isinstance(q, SymReal):
            return _CTX.floor(q.lin)
        return math.floor(q)

    def __mod__(self, o):
        raise PathAbort("modulo on a symbolic value")

    def __index__(self):
        return _CTX.concretize_int(self.lin)

    def __int__(self):
        return _CTX.concretize_int(self.lin)

    __trunc__ = __int__
    __ceil__ = __int__
    __floor__ = __int__

    def __float__(self):
        raise PathAbort("float() applied to a symbolic value (C sink)")

    def __hash__(self):
        return id(self)


# --------------------------------------------------------------------------
# exact rational "float" for concrete replays whose model is not dyadic


def _q(x):
    if isinstance(x, QReal):
        return x.q
    return _frac(x)


class QReal(float):
    """A float subclass doing exact rational arithmetic (no solver).  Used only to replay
    counterexamples that need an exact tie between non-dyadic values."""
    __slots__ = ("q",)

    def __new__(cls, q):
        if isinstance(q, float) and (q != q or q in (math.inf, -math.inf)):
            return float(q)          # no exact value: plain float semantics
        o = float.__new__(cls, float(q))
        o.q = Fraction(q)
        return o

    def _b(f):
        def g(self, o):
            if not isinstance(o, (int, float, Fraction)):
                return NotImplemented
            if isinstance(o, float) and not isinstance(o, QReal) and (o != o or o in (math.inf, -math.inf)):
                return f(float(self.q), o)       # comparisons / arithmetic with inf or nan: plain float semantics
            return f(self.q, _q(o))
        return g

    __lt__ = _b(lambda a, b: a < b); __le__ = _b(lambda a, b: a <= b)
    __gt__ = _b(lambda a, b: a > b); __ge__ = _b(lambda a, b: a >= b)
    __eq__ = _b(lambda a, b: a == b); __ne__ = _b(lambda a, b: a != b)
    __add__ = _b(lambda a, b: QReal(a + b)); __radd__ = __add__
    __sub__ = _b(lambda a, b: QReal(a - b)); __rsub__ = _b(lambda a, b: QReal(b - a))
    __mul__ = _b(lambda a, b: QReal(a * b)); __rmul__ = __mul__
    __truediv__ = _b(lambda a, b: QReal(a / b)); __rtruediv__ = _b(lambda a, b: QReal(b / a))
    del _b

    def __hash__(self):
        return hash(self.q)

    def __neg__(self):
        return QReal(-self.q)

    def __abs__(self):
        return QReal(abs(self.q))

    def __bool__(self):
        return self.q != 0

    def __ceil__(self):
        return math.ceil(self.q)

    def __floor__(self):
        return math.floor(self.q)

    def __trunc__(self):
        return math.trunc(self.q)

    __int__ = __trunc__

    def __round__(self, n=None):
        return round(float(self.q), n) if n is not None else round(self.q)

    def __format__(self, spec):
        return format(float(self.q), spec)

    def __repr__(self):
        return repr(float(self.q))


def is_dyadic(fr, maxbits=30):
    d = fr.denominator
    return d & (d - 1) == 0 and d.bit_length() <= maxbits


# --------------------------------------------------------------------------
# running one path


class PathResult:
    __slots__ = ("status", "label", "info", "trace", "alternatives", "queries", "solver_s", "forks",
                 "witness", "logs", "notes", "model", "exc", "findings", "values", "choices", "nvars", "allvalues")


def _alarm(signum, frame):
    raise PathBudget("path wall-clock timeout")


def run_path(fn, prefix=(), model=None, seed=0, max_branch=200000, want_model=False, path_timeout=20.0):
    """Execute fn(ctx) along one path.  Returns PathResult."""
    global _CTX
    import signal
    c = Ctx(prefix, model, max_branch=max_branch, seed=seed)
    _CTX = c
    res = PathResult()
    res.exc = None
    res.label = None
    res.info = None
    try:
        signal.signal(signal.SIGALRM, _alarm)
        signal.setitimer(signal.ITIMER_REAL, path_timeout)
    except ValueError:   # not in the main thread
        pass
    try:
        try:
            fn(c)
        finally:
            try:
                signal.setitimer(signal.ITIMER_REAL, 0)
            except ValueError:
                pass
        res.status = "ok"
    except PathViolation as e:
        res.status = "violation"
        res.label, res.info = c.violation if c.violation else (str(e), None)
    except PathInfeasible:
        res.status = "infeasible"
    except PathAbort as e:
        res.status = "abort"
        res.label = str(e)
    except PathBudget as e:
        res.status = "budget"
        res.label = str(e)
    except ReplayDivergence as e:
        res.status = "diverged"
        res.label = str(e)
    except RecursionError as e:  # pragma: no cover
        res.status = "abort"
        res.label = "recursion"
    except Exception as e:
        # an exception of the harness itself (e.g. the repository was refactored and an attribute the harness reads is gone)
        import traceback
        res.status = "harness-exception"
        res.label = f"{type(e).__name__}: {e} @ " + " <- ".join(f"{fr.name}:{fr.lineno}" for fr in traceback.extract_tb(e.__traceback__)[-3:])
    res.trace = c.trace
    res.alternatives = c.alternatives
    res.queries = c.n_queries
    res.solver_s = c.solver_s
    res.forks = c.n_forks
    res.witness = c.witness
    res.logs = c.logs
    res.notes = c.notes
    res.findings = c.findings
    res.nvars = len(c.vars)
    res.model = None
    res.values = None
    res.allvalues = None
    res.choices = [e[2] for e in c.trace if e[0] == 'c']
    if want_model or res.status == "violation" or c.findings:
        try:
            m = c.nice_model()
        except Exception:
            m = dict(c.model)
        res.model = {c.vars[v][0]: str(m[v]) for v in c.inputs}
        res.values = [m[v] for v in c.inputs]
        res.allvalues = m
    _CTX = None
    return res


def run_concrete(fn, values, choices, tol=1e-9):
    """Run fn with plain numbers.  Returns (status, label, info, ctx)."""
    global _CTX
    _CTX = None
    c = ConcreteCtx(values, choices, tol)
    try:
        fn(c)
        return "ok", None, None, c
    except PathViolation:
        return "violation", c.violation[0], c.violation[1], c
    except PathInfeasible:
        return "infeasible", None, None, c
