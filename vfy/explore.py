"""Parallel depth-first exploration of all feasible paths of a harness."""
from __future__ import annotations

import importlib
import os
import sys
import time
from concurrent.futures import ProcessPoolExecutor, wait, FIRST_COMPLETED
from fractions import Fraction

from . import symx


class _Null:
    def write(self, s):
        return 0

    def flush(self):
        pass

    def isatty(self):
        return False


def build(spec):
    """spec = (module, factory_name, kwargs) -> harness function fn(ctx)."""
    mod, name, kwargs = spec
    m = importlib.import_module(mod)
    return getattr(m, name)(**kwargs)


def _inst(x, model_values, varnames):
    if isinstance(x, (symx.SymReal, symx.SymInt)):
        return float(x.lin.eval(model_values))
    if isinstance(x, (list, tuple)):
        return tuple(_inst(y, model_values, varnames) for y in x)
    if isinstance(x, Fraction):
        return float(x)
    return x


def _close(a, b, tol=1e-7):
    if isinstance(a, tuple) and isinstance(b, (tuple, list)):
        return len(a) == len(b) and all(_close(x, y, tol) for x, y in zip(a, b))
    if isinstance(a, (int, float)) and isinstance(b, (int, float)) and not isinstance(a, bool) and not isinstance(b, bool):
        return abs(a - b) <= tol
    return a == b


def _jsonable(x):
    if isinstance(x, (symx.SymReal, symx.SymInt)):
        return repr(x)
    if isinstance(x, Fraction):
        return float(x) if x.denominator != 1 else int(x)
    if isinstance(x, dict):
        return {str(k): _jsonable(v) for k, v in x.items()}
    if isinstance(x, (list, tuple)):
        return [_jsonable(y) for y in x]
    if isinstance(x, (str, int, float, bool)) or x is None:
        return x
    return repr(x)


_FN_CACHE = {}


def _get_fn(spec):
    k = repr(spec)
    fn = _FN_CACHE.get(k)
    if fn is None:
        fn = build(spec)
        _FN_CACHE[k] = fn
    return fn


def worker_job(job):
    """Explore a sub-tree depth-first for a bounded time; return stats and leftover frontier."""
    spec, stack, seed, slice_s, validate_every, max_branch = job
    if not isinstance(sys.stdout, _Null):
        sys.stdout = _Null()
    fn = _get_fn(spec)
    t_end = time.time() + slice_s
    out = {
        "paths": 0, "status": {}, "witness": {}, "queries": 0, "solver_s": 0.0, "forks": 0,
        "violations": [], "findings": [], "samples": [], "validated": 0, "validation_failures": [],
        "aborts": {}, "maxdepth": 0,
    }
    stack = list(stack)
    n = 0
    while stack and time.time() < t_end:
        prefix, model = stack.pop()
        n += 1
        want_model = bool(validate_every) and (n % validate_every == 0)
        r = symx.run_path(fn, prefix, model, seed=seed, max_branch=max_branch, want_model=want_model)
        out["paths"] += 1
        out["status"][r.status] = out["status"].get(r.status, 0) + 1
        out["queries"] += r.queries
        out["solver_s"] += r.solver_s
        out["forks"] += r.forks
        out["maxdepth"] = max(out["maxdepth"], len(r.trace))
        for k, v in r.witness.items():
            out["witness"][k] = out["witness"].get(k, 0) + v
        stack.extend(r.alternatives)
        if r.status in ("abort", "budget", "diverged", "harness-exception"):
            out["aborts"][f"{r.status}:{r.label}"] = out["aborts"].get(f"{r.status}:{r.label}", 0) + 1
        if r.status == "violation" or r.findings:
            # replay concretely on the real code, with plain numbers
            items = []
            if r.status == "violation":
                items.append((r.label, r.info, True))
            for (lab, info) in r.findings:
                items.append((lab, info, False))
            try:
                st, lab, info, cc = symx.run_concrete(fn, _typed(r), r.choices)
                conc = {"status": st, "label": lab, "info": _jsonable(info), "findings": [(l, _jsonable(i)) for l, i in cc.findings]}
            except symx.PathStop as e:  # pragma: no cover
                conc = {"status": "error", "label": repr(e), "info": None, "findings": []}
            except Exception as e:
                conc = {"status": "exception", "label": f"{type(e).__name__}: {e}", "info": None, "findings": []}
            for lab, info, hard in items:
                if hard:
                    rep = conc["status"] == "violation" and conc["label"] == lab
                else:
                    rep = any(l == lab for l, _ in conc["findings"]) or (conc["status"] == "violation" and conc["label"] == lab)
                rec = {"label": lab, "info": _jsonable(info), "hard": hard, "reproduced": rep,
                       "concrete": conc if not rep else None,
                       "model": r.model, "values": [str(v) for v in r.values], "choices": r.choices,
                       "spec": spec}
                (out["violations"] if hard else out["findings"]).append(rec)
        elif want_model and r.status == "ok" and r.values is not None:
            # engine validation: the same path with plain numbers must give the same log
            try:
                st, lab, info, cc = symx.run_concrete(fn, _typed(r), r.choices)
                mv = r.allvalues
                sym_log = [_inst(e, mv, None) for e in r.logs]
                con_log = [tuple(_inst(e, mv, None)) for e in cc.logs]
                ok = st == "ok" and len(sym_log) == len(con_log) and all(_close(a, b) for a, b in zip(sym_log, con_log))
                out["validated"] += 1
                if not ok:
                    k = 0
                    while k < min(len(sym_log), len(con_log)) and _close(sym_log[k], con_log[k]):
                        k += 1
                    out["validation_failures"].append({
                        "model": r.model, "choices": r.choices, "concrete_status": st, "concrete_label": lab,
                        "first_diff": k, "sym": _jsonable(sym_log[k:k + 2]), "con": _jsonable(con_log[k:k + 2]),
                        "len": (len(sym_log), len(con_log))})
            except symx.PathStop as e:
                out["validation_failures"].append({"model": r.model, "error": repr(e)})
            except Exception as e:
                out["validation_failures"].append({"model": r.model, "error": f"{type(e).__name__}: {e}"})
        if len(out["samples"]) < 2 and r.status == "ok":
            out["samples"].append({"choices": r.choices[:40], "branches": sum(1 for e in r.trace if e[0] == 'b'),
                                   "forks": r.forks, "model": r.model,
                                   "log_head": _jsonable(r.logs[:12])})
    out["leftover"] = stack
    return out


def _typed(r):
    """values in creation order, ints for integer-valued"""
    return [v for v in r.values]


def explore(spec, *, workers=None, budget_s=60.0, seed=0, slice_s=1.5, validate_every=0, max_branch=200000,
            max_paths=None, stop_on_violation=False):
    """Explore all paths of build(spec).  Returns aggregate dict with 'exhaustive' flag."""
    workers = workers or min(16, os.cpu_count() or 4)
    t0 = time.time()
    agg = {
        "paths": 0, "status": {}, "witness": {}, "queries": 0, "solver_s": 0.0, "forks": 0,
        "violations": [], "findings": [], "samples": [], "validated": 0, "validation_failures": [],
        "aborts": {}, "maxdepth": 0,
    }
    frontier = [([], None)]
    pending = set()
    with ProcessPoolExecutor(max_workers=workers) as ex:
        first = True
        stop = False
        while (frontier or pending) and not stop:
            now = time.time()
            timed_out = now - t0 > budget_s or (max_paths and agg["paths"] >= max_paths)
            if timed_out and not pending:
                break
            while frontier and len(pending) < workers * 2 and not timed_out:
                # hand out small chunks of the frontier
                k = max(1, min(len(frontier), (len(frontier) + workers - 1) // (workers * 2)))
                frontier.sort(key=lambda pm: len(pm[0]))
                chunk = frontier[:k]
                del frontier[:k]
                sl = 0.3 if first else slice_s
                first = False
                pending.add(ex.submit(worker_job, (spec, chunk, seed, sl, validate_every, max_branch)))
            if not pending:
                break
            done, pending = wait(pending, timeout=1.0, return_when=FIRST_COMPLETED)
            for f in done:
                o = f.result()
                agg["paths"] += o["paths"]
                for k, v in o["status"].items():
                    agg["status"][k] = agg["status"].get(k, 0) + v
                for k, v in o["witness"].items():
                    agg["witness"][k] = agg["witness"].get(k, 0) + v
                for k, v in o["aborts"].items():
                    agg["aborts"][k] = agg["aborts"].get(k, 0) + v
                agg["queries"] += o["queries"]
                agg["solver_s"] += o["solver_s"]
                agg["forks"] += o["forks"]
                agg["validated"] += o["validated"]
                agg["maxdepth"] = max(agg["maxdepth"], o["maxdepth"])
                agg["validation_failures"].extend(o["validation_failures"][:3])
                if len(agg["violations"]) < 200:
                    agg["violations"].extend(o["violations"])
                if len(agg["findings"]) < 400:
                    agg["findings"].extend(o["findings"])
                if len(agg["samples"]) < 4:
                    agg["samples"].extend(o["samples"])
                frontier.extend(o["leftover"])
                if stop_on_violation and agg["violations"]:
                    stop = True
        for f in pending:
            f.cancel()
    agg["exhaustive"] = not frontier and not pending
    agg["frontier_left"] = len(frontier)
    agg["wall_s"] = time.time() - t0
    return agg


def explore_serial(spec, budget_s=60.0, seed=0, validate_every=0, max_branch=200000, max_paths=None):
    """single-process version (debugging / profiling)."""
    t0 = time.time()
    o = worker_job((spec, [([], None)], seed, budget_s, validate_every, max_branch))
    o["exhaustive"] = not o["leftover"]
    o["frontier_left"] = len(o["leftover"])
    o["wall_s"] = time.time() - t0
    return o
