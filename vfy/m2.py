"""M2 - bounded symbolic simulation of small factories built from the real node and edge classes.

A Factory object builds the components, wraps the store inside every edge (on the instance) so that
every reserve/put/get/cancel is logged with the calling node, drives the SimPy kernel event by event and
runs the monitors / observers that implement the oracles of C03, C08, C09, C10, C15, C16, C17, C18, C20.
"""
from __future__ import annotations

import simpy

from . import symx
from .simenv import make_env, load_repo

BIG = 10 ** 9
HORIZON = 10 ** 8


class Tk:
    """a reservation token seen by the ledger"""
    __slots__ = ("ev", "kind", "edge", "node", "t", "state", "t_granted", "round", "t_cancel", "granted_at_cancel", "c15_done")

    def __init__(self, ev, kind, edge, node, t):
        self.ev = ev
        self.kind = kind
        self.edge = edge
        self.node = node
        self.t = t
        self.state = "out"       # out(standing) / used / cancelled
        self.t_granted = None
        self.round = None
        self.t_cancel = None
        self.granted_at_cancel = False
        self.c15_done = False

    @property
    def granted(self):
        return self.ev.triggered

    def __repr__(self):
        return f"<{self.kind}@{self.edge.id} by {getattr(self.node, 'id', self.node)} {self.state}{' granted' if self.granted else ''}>"


class ItemRec:
    __slots__ = ("obj", "loc", "t_created", "src", "hist", "pulls", "pallet")

    def __init__(self, obj):
        self.obj = obj
        self.loc = None          # ('src', node) ('edge', E) ('node', X) ('sink', K) ('discarded', X) ('pallet', P)
        self.t_created = None
        self.src = None
        self.hist = []           # (kind, t, edge, node)
        self.pulls = []          # dicts: node, t_pull, d, t_ready ...
        self.pallet = None


class Factory:
    def __init__(self, ctx, props=()):
        load_repo()
        self.ctx = ctx
        self.props = set(props)
        self.env = make_env()
        self.nodes = []
        self.edges = []
        self.toks = {}          # id(ev) -> Tk
        self.items = {}         # id(obj) -> ItemRec
        self.events = []        # ledger log
        self.delay_calls = []   # (node, t, value)
        self.sel_calls = []     # (node, side, t, value)
        self.nsteps = 0
        self.crash = None
        self.instant_hooks = []
        self.step_hooks = []
        self.reported = set()
        self.stores = {}

    # ---- failure reporting --------------------------------------------------------
    def fail(self, label, info=None):
        pid = label.split(":")[0]
        if pid in self.props or pid == "CRASH":
            self.ctx.fail(label, info)
        self.ctx.hit("other-property:" + label)
        raise symx.PathInfeasible()

    def soft(self, label, info=None):
        pid = label.split(":")[0]
        if pid in self.props and label not in self.reported:
            self.reported.add(label)
            self.ctx.finding(label, info)

    # ---- construction ------------------------------------------------------------------
    def add_node(self, n):
        self.nodes.append(n)
        return n

    def add_edge(self, e):
        self.edges.append(e)
        self._instrument(e)
        return e

    def store_of(self, e):
        return e.belt if hasattr(e, "belt") else e.inbuiltstore

    def edge_of_store(self, s):
        return self.stores[id(s)]

    def caller(self):
        p = self.env.active_process
        if p is None:
            return None
        g = getattr(p, "_generator", None)
        fr = getattr(g, "gi_frame", None)
        if fr is None:
            return None
        return fr.f_locals.get("self")

    def _instrument(self, e):
        s = self.store_of(e)
        self.stores[id(s)] = e
        F = self
        o_rp, o_rg, o_put, o_get = s.reserve_put, s.reserve_get, s.put, s.get
        o_cp, o_cg = s.reserve_put_cancel, s.reserve_get_cancel

        def reserve_put(*a, **k):
            ev = o_rp(*a, **k)
            F._tok(ev, "put", e)
            return ev

        def reserve_get(*a, **k):
            ev = o_rg(*a, **k)
            F._tok(ev, "get", e)
            return ev

        def put(ev, item, *a, **k):
            r = o_put(ev, item, *a, **k)
            F._on_put(e, ev, item[0] if isinstance(item, tuple) else item)
            return r

        def get(ev, *a, **k):
            it = o_get(ev, *a, **k)
            F._on_get(e, ev, it)
            return it

        def cancel_put(ev):
            r = o_cp(ev)
            F._on_cancel(e, ev, "put")
            return r

        def cancel_get(ev):
            r = o_cg(ev)
            F._on_cancel(e, ev, "get")
            return r

        s.reserve_put, s.reserve_get, s.put, s.get = reserve_put, reserve_get, put, get
        s.reserve_put_cancel, s.reserve_get_cancel = cancel_put, cancel_get

    # ---- ledger callbacks --------------------------------------------------------------
    def _tok(self, ev, kind, e):
        node = self.caller()
        t = Tk(ev, kind, e, node, self.env.now)
        self.toks[id(ev)] = t
        self.events.append(("r" + kind[0], self.env.now, e, node, None, t))
        return t

    def rec(self, obj):
        r = self.items.get(id(obj))
        if r is None:
            r = ItemRec(obj)
            self.items[id(obj)] = r
        return r

    def _on_put(self, e, ev, obj):
        node = self.caller()
        t = self.toks.get(id(ev))
        if t is not None:
            t.state = "used"
        r = self.rec(obj)
        now = self.env.now
        if r.loc is None:
            # first sighting: must come from a source
            r.src = node
            r.t_created = now
        elif r.loc[0] == "node" and r.loc[1] is node:
            pass
        elif r.loc[0] == "pallet" and self.rec(r.loc[1]).loc == ("node", node):
            pass     # unpacked from a pallet this node holds
        else:
            self.soft("C03:item-put-into-an-edge-while-located-elsewhere", {"item": repr(obj), "loc": repr(r.loc), "by": getattr(node, "id", None)})
        r.loc = ("edge", e)
        r.hist.append(("put", now, e, node))
        for x in getattr(obj, "items", None) or []:
            rx = self.rec(x)
            rx.loc = ("pallet", obj)
        self.events.append(("put", now, e, node, r, t, tuple(getattr(obj, "items", None) or ())))

    def _on_get(self, e, ev, obj):
        node = self.caller()
        t = self.toks.get(id(ev))
        if t is not None:
            t.state = "used"
        r = self.rec(obj)
        now = self.env.now
        if r.loc != ("edge", e):
            self.soft("C03:item-taken-from-an-edge-it-is-not-in", {"item": repr(obj), "loc": repr(r.loc), "edge": e.id})
        kind = "sink" if node.__class__.__name__ == "Sink" else "node"
        r.loc = (kind, node)
        r.hist.append(("get", now, e, node))
        if kind == "node":
            self.pull_seq = getattr(self, "pull_seq", 0) + 1
            r.pulls.append({"node": node, "t": now, "edge": e, "d": None, "t_out": None, "out": None, "_seq": self.pull_seq})
        self.events.append(("get", now, e, node, r, t, tuple(getattr(obj, "items", None) or ())))

    def _on_cancel(self, e, ev, kind):
        t = self.toks.get(id(ev))
        if t is not None:
            t.state = "cancelled"
            t.t_cancel = self.env.now
            t.granted_at_cancel = bool(ev.triggered)
        self.events.append(("c" + kind[0], self.env.now, e, self.caller(), None, t))

    # ---- delay / selector sources ------------------------------------------------------------
    def delay_source(self, owner_name, values, kind="callable", after=BIG):
        """values: list of numbers handed out in order; afterwards `after`.  kind: callable | generator | const(first value)"""
        F = self
        state = {"k": 0}

        def nxt():
            k = state["k"]
            state["k"] += 1
            v = values[k] if k < len(values) else after
            F.delay_calls.append((owner_name, F.env.now, v, k))
            return v
        if kind == "callable":
            return nxt
        if kind == "generator":
            def g():
                while True:
                    yield nxt()
            return g()
        return values[0]

    def selector(self, owner_name, side, values, kind="callable", after=0):
        F = self
        state = {"k": 0}

        def nxt():
            k = state["k"]
            state["k"] += 1
            v = values[k] if k < len(values) else after
            F.sel_calls.append((owner_name, side, F.env.now, v))
            return v
        if kind == "callable":
            return nxt

        def g():
            while True:
                yield nxt()
        return g()

    # ---- kernel driving ----------------------------------------------------------------------
    def step(self):
        try:
            self.env.step()
        except symx.PathStop:
            raise
        except simpy.core.EmptySchedule:
            raise
        except Exception as e:
            self.crash = e
            site = _site(e)
            self.fail(f"CRASH:{type(e).__name__}@{site}", {"msg": str(e)[:200]})
        self.nsteps += 1
        for h in self.step_hooks:
            h(self)

    def end_of_instant(self):
        q = self.env._queue
        return (not q) or q[0][0] > self.env.now

    def run(self, until=None, max_steps=6000, per_instant=1500):
        """run until the queue is empty / only far-future events remain / time `until` (URGENT stop event, as env.run does)"""
        env = self.env
        stop = None
        if until is not None:
            stop = env.event()
            stop._ok = True
            stop._value = None
            env.schedule(stop, 0, until - env.now)
        in_instant = 0
        while env._queue:
            head = env._queue[0]
            if stop is not None and head[3] is stop:
                env.step()
                break
            if stop is None and not (head[0] < HORIZON):
                break
            self.step()
            in_instant += 1
            if self.end_of_instant():
                in_instant = 0
                for h in self.instant_hooks:
                    h(self)
            elif in_instant > per_instant:
                self.fail("C20:zero-time-livelock", {"events_in_one_instant": in_instant})
            if self.nsteps > max_steps:
                raise symx.PathBudget("step budget")
        return stop

    # ---- ghost views ----------------------------------------------------------------------------
    def occupancy(self, e):
        return sum(1 for r in self.items.values() if r.loc == ("edge", e))

    def standing(self, e=None, kind=None, node=None):
        return [t for t in self.toks.values() if t.state == "out" and (e is None or t.edge is e)
                and (kind is None or t.kind == kind) and (node is None or t.node is node)]

    def has_room(self, e):
        """ledger view: could a space reservation on e be granted now?"""
        g = sum(1 for t in self.standing(e, "put") if t.granted)
        return self.occupancy(e) + g < e.capacity


def _site(e):
    tb = e.__traceback__
    last = None
    c = e
    # follow the cause chain to the original exception raised inside a process
    while getattr(c, "__cause__", None) is not None:
        c = c.__cause__
    tb = c.__traceback__
    while tb is not None:
        f = tb.tb_frame.f_code
        if "/factorysimpy/" in f.co_filename:
            last = f"{f.co_filename.split('/factorysimpy/')[-1]}:{f.co_name}"
        tb = tb.tb_next
    return last or "?"


# =====================================================================================================
# monitors / observers


def mon_capacity(F):
    """C01 in factories: ledger occupancy + granted-unused space tokens <= capacity on every edge"""
    for e in F.edges:
        g = sum(1 for t in F.standing(e, "put") if t.granted)
        if F.occupancy(e) + g > e.capacity:
            F.soft("C01:occupancy+granted-space-exceeds-capacity@" + e.__class__.__name__, {"edge": e.id})


def node_holdings(F, n):
    """white-box: flow items a node currently holds (the state the C03 anchors name)"""
    cls = n.__class__.__name__
    out = []
    if cls in ("Machine", "Splitter", "Combiner"):
        if getattr(n, "item_in_process", None) is not None:
            out.append(n.item_in_process)
        if getattr(n, "pallet_in_process", None) is not None:
            out.append(n.pallet_in_process)
        for p in getattr(n, "worker_thread_list", []):
            it = getattr(p, "item_to_put", None)
            if it is not None:
                out.append(it)
    res = []
    for x in out:
        if not any(x is y for y in res):
            res.append(x)
    return res


def reconcile_discards(F):
    """items the ledger places in a node that the node no longer holds were dropped"""
    for n in F.nodes:
        if n.__class__.__name__ in ("Machine", "Splitter", "Combiner"):
            held = node_holdings(F, n)
            for r in F.items.values():
                if r.loc == ("node", n) and not any(r.obj is h for h in held):
                    r.loc = ("discarded", n)
                    r.hist.append(("drop", F.env.now, None, n))
                    if r.pulls:
                        r.pulls[-1]["t_out"] = F.env.now
                        r.pulls[-1]["out"] = "drop"


def obs_conservation(F):
    """C03 at the end of every instant"""
    ctx = F.ctx
    ctx.hit("C03:checked")
    gen = sum(n.stats["num_item_generated"] for n in F.nodes if n.__class__.__name__ == "Source")
    disc = sum(n.stats.get("num_item_discarded", 0) for n in F.nodes if n.__class__.__name__ != "Sink")
    recv = sum(n.stats["num_item_received"] for n in F.nodes if n.__class__.__name__ == "Sink")
    in_edges = 0
    for e in F.edges:
        s = F.store_of(e)
        real = len(s.items) + len(getattr(s, "ready_items", []))
        if real != F.occupancy(e):
            F.soft("C03:edge-content-differs-from-ledger", {"edge": e.id, "real": real, "ledger": F.occupancy(e)})
        in_edges += real
    in_nodes = 0
    packed = 0
    for r in F.items.values():
        if r.loc is not None and r.loc[0] == "node":
            in_nodes += 1
        if r.loc is not None and r.loc[0] == "pallet":
            packed += 1
    # items held by sources: generated but neither put nor discarded yet
    first_puts = {}
    for r in F.items.values():
        if r.src is not None and r.src.__class__.__name__ == "Source":
            first_puts[r.src] = first_puts.get(r.src, 0) + 1
    at_sources = 0
    for n in F.nodes:
        if n.__class__.__name__ == "Source":
            held = n.stats["num_item_generated"] - first_puts.get(n, 0) - n.stats["num_item_discarded"]
            if held < 0 or held > 1:
                F.soft("C03:source-holds-%d-items" % held, {"source": n.id})
            at_sources += held
    # discards at non-source nodes: items the ledger placed in a node that the node no longer holds (see reconcile_discards)
    reconcile_discards(F)
    in_nodes = sum(1 for r in F.items.values() if r.loc is not None and r.loc[0] == "node")
    for n in F.nodes:
        if n.__class__.__name__ in ("Machine", "Splitter", "Combiner"):
            dropped = sum(1 for r in F.items.values() if r.loc == ("discarded", n))
            counted = n.stats.get("num_item_discarded", 0)
            if dropped > counted:
                F.soft("C03:item-vanished-inside-a-node-without-being-counted", {"node": n.id, "dropped": dropped, "counted": counted})
            elif dropped < counted:
                F.soft("C03:discard-counter-exceeds-items-dropped", {"node": n.id, "dropped": dropped, "counted": counted})
    src_disc = sum(n.stats["num_item_discarded"] for n in F.nodes if n.__class__.__name__ == "Source")
    ledger_disc = sum(1 for r in F.items.values() if r.loc is not None and r.loc[0] == "discarded")
    total = at_sources + in_edges + in_nodes + packed + src_disc + ledger_disc + recv
    if total != gen + F.extra_items():
        F.soft("C03:generated!=edges+nodes+packed+discarded+received", {"generated": gen, "sources": at_sources, "edges": in_edges, "nodes": in_nodes,
                                                                           "packed": packed, "discarded": src_disc + ledger_disc, "received": recv})
    sinks = sum(1 for r in F.items.values() if r.loc is not None and r.loc[0] == "sink")
    if sinks != recv:
        F.soft("C03:received-counter-differs-from-items-absorbed", {"counter": recv, "absorbed": sinks})


Factory.extra_items = lambda self: 0
