from . import simenv  # noqa: F401  (puts the repository working tree first on sys.path)
