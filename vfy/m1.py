"""M1 - store-level call histories from a constructed state (see DESIGN.md §4).

The store under test is the real class from /repo; the harness keeps ghost state
(tokens, items, reference bindings) and evaluates the oracles of C01, C02, C04,
C05, C06, C07 and C11 after every call and kernel step.
"""
from __future__ import annotations

import simpy

from . import symx
from .simenv import make_env, load_repo


class It:
    """flow item handed to stores"""

    def __init__(self, id, k=None):
        self.id = id
        self.k = k
        self.length = 1

    def __repr__(self):
        return f"It({self.id})"


class EqIt(It):
    """value-like items: distinct objects that compare equal (two parts of the same type)"""

    def __eq__(self, other):
        return isinstance(other, EqIt)

    def __hash__(self):
        return 11


class FalsyIt(It):
    """an item whose truth value is False (an empty container travelling through the line)"""

    def __bool__(self):
        return False

    def __len__(self):
        return 0


class SameIdIt(It):
    """distinct parts that carry the same id (a part number rather than a serial number)"""

    def __init__(self, id, k=None):
        super().__init__(id, k)
        self.serial = id
        self.id = "part"

    def __repr__(self):
        return f"It({self.serial})"


ITEM_CLASSES = {"plain": It, "equal": EqIt, "falsy": FalsyIt, "same-id": SameIdIt}


class Tok:
    __slots__ = ("kind", "ev", "prio", "seq", "proc", "state", "theta", "bound", "granted_seen")

    def __init__(self, kind, ev, prio, seq, proc, theta=None):
        self.kind = kind
        self.ev = ev
        self.prio = prio
        self.seq = seq
        self.proc = proc
        self.state = "pending"      # pending / granted / used / cancelled
        self.theta = theta
        self.bound = None
        self.granted_seen = False

    def __repr__(self):
        return f"{self.kind}#{self.seq}:{self.state}"


class GItem:
    __slots__ = ("obj", "t_put", "delay", "seq", "inside", "avail_rank")

    def __init__(self, obj, t_put, delay, seq):
        self.obj = obj
        self.t_put = t_put
        self.delay = delay
        self.seq = seq
        self.inside = True
        self.avail_rank = None      # order of becoming available (white-box observation or put order)


class Proc:
    """stand-in for a SimPy process as the caller of a store method"""
    outside = False          # True: calls are made from set-up code, outside any process (env.active_process is None)

    def __init__(self, name):
        self.name = name

    def __repr__(self):
        return f"<proc {self.name}>"


# ---------------------------------------------------------------------------
# adapters: how each store class is constructed and called


class Adapter:
    name = ""
    timed = False
    prio = False
    filt = False
    avail = "immediate"     # immediate | ghost_delay | whitebox
    lifo = False
    edge = False            # driven through an edge object (Buffer/Fleet/ConveyorBelt)
    settle_urgent = False   # run process-initialisation (URGENT) events after every call

    def __init__(self, **kw):
        self.kw = kw

    def build(self, h):
        raise NotImplementedError

    def reserve_put(self, h, prio):
        return h.store.reserve_put(prio) if self.prio else h.store.reserve_put()

    def reserve_get(self, h, prio, theta):
        return h.store.reserve_get(prio) if self.prio else h.store.reserve_get()

    def put(self, h, tok, obj, delay):
        return h.store.put(tok.ev, obj)

    def get(self, h, tok):
        return h.store.get(tok.ev)

    def cancel_put(self, h, ev):
        return h.store.reserve_put_cancel(ev)

    def cancel_get(self, h, ev):
        return h.store.reserve_get_cancel(ev)

    def raw(self, h):
        return h.store

    def contents(self, h):
        """objects inside, white-box (only for C02 'still inside' and C07 snapshots)"""
        s = self.raw(h)
        out = []
        for x in list(s.items) + list(getattr(s, "ready_items", [])):
            out.append(x[0] if isinstance(x, tuple) else x)
        return out

    def ready_objs(self, h):
        return list(getattr(self.raw(h), "ready_items", []))

    def new_delay(self, h):
        return None

    def new_gap(self, h):
        return h.ctx.real("gap", 0)

    def final_gap(self, h):
        return h.ctx.real("gap", 0)


class A_RPRS(Adapter):
    name = "ReservablePriorityReqStore"
    prio = True

    def build(self, h):
        from factorysimpy.base.reservable_priority_req_store import ReservablePriorityReqStore
        return ReservablePriorityReqStore(h.env, capacity=h.cap)


class A_RRS(Adapter):
    name = "ReservableReqStore"

    def build(self, h):
        from factorysimpy.base.reservable_req_store import ReservableReqStore
        return ReservableReqStore(h.env, capacity=h.cap)


class A_RPRFS(Adapter):
    name = "ReservablePriorityReqFilterStore"
    prio = True
    filt = True
    timed = False  # trigger_delay = 0: the per-put trigger processes change nothing; they run in the final drain

    def build(self, h):
        from factorysimpy.base.reservable_priority_req_filter_store import ReservablePriorityReqFilterStore
        return ReservablePriorityReqFilterStore(h.env, capacity=h.cap)

    def reserve_get(self, h, prio, theta):
        if theta is None:
            return h.store.reserve_get(prio)
        return h.store.reserve_get(prio, filter=lambda it, th=theta: it.k >= th)


class A_RPRFS_TD(A_RPRFS):
    """filter store with a symbolic trigger_delay > 0 and default (time based) filters only"""
    name = "ReservablePriorityReqFilterStore[trigger_delay]"
    timed = True
    filt = False
    avail = "ghost_delay"

    def build(self, h):
        from factorysimpy.base.reservable_priority_req_filter_store import ReservablePriorityReqFilterStore
        h.trigger_delay = h.ctx.real("td", 0)
        return ReservablePriorityReqFilterStore(h.env, capacity=h.cap, trigger_delay=h.trigger_delay)

    def reserve_get(self, h, prio, theta):
        return h.store.reserve_get(prio)

    def new_delay(self, h):
        return h.trigger_delay

    def ready_objs(self, h):
        # an item counts as available once the default filter accepts it
        return [x for x in h.store.items if h.env.now >= x.put_time + h.trigger_delay]


class A_Buffer(Adapter):
    """BufferStore, raw"""
    name = "BufferStore"
    timed = True
    avail = "ghost_delay"

    def __init__(self, mode="FIFO", **kw):
        super().__init__(**kw)
        self.mode = mode
        self.lifo = mode == "LIFO"
        self.name = f"BufferStore[{mode}]"

    def build(self, h):
        from factorysimpy.base.buffer_store import BufferStore
        return BufferStore(h.env, capacity=h.cap, mode=self.mode)

    def put(self, h, tok, obj, delay):
        return h.store.put(tok.ev, (obj, delay))

    def new_delay(self, h):
        return h.ctx.real("d", 0)


class A_BufferEdge(A_Buffer):
    """BufferStore driven through the Buffer edge (delay drawn by the edge)"""
    edge = True

    def __init__(self, mode="FIFO", delay_kind="callable", **kw):
        super().__init__(mode, **kw)
        self.delay_kind = delay_kind
        self.name = f"Buffer[{mode},{delay_kind}]"

    def build(self, h):
        from factorysimpy.edges.buffer import Buffer
        h.delay_calls = 0
        h.next_delay = None

        def dfun():
            h.delay_calls += 1
            return h.next_delay

        def dgen():
            while True:
                h.delay_calls += 1
                yield h.next_delay
        if self.delay_kind == "const":
            h.const_delay = h.ctx.real("dconst", 0)
            d = h.const_delay
        elif self.delay_kind == "gen":
            d = dgen()
        else:
            d = dfun
        e = Buffer(h.env, "B", capacity=h.cap, delay=d, mode=self.mode)
        e.src_node = object()
        e.dest_node = object()
        h.edgeobj = e
        return e

    def raw(self, h):
        return h.store.inbuiltstore

    def put(self, h, tok, obj, delay):
        if self.delay_kind != "const":
            h.next_delay = delay
            before = h.delay_calls
        r = h.store.put(tok.ev, obj)
        if self.delay_kind != "const" and h.delay_calls != before + 1:
            h.fail("C11:delay-source-consulted-%d-times-per-put" % (h.delay_calls - before))
        return r

    def new_delay(self, h):
        if self.delay_kind == "const":
            return h.const_delay
        return h.ctx.real("d", 0)


class A_Fleet(Adapter):
    name = "FleetStore"
    timed = True
    prio = True
    avail = "whitebox"

    def __init__(self, delay=None, transit=None, **kw):
        super().__init__(**kw)
        self.delay = delay
        self.transit = transit

    def build(self, h):
        from factorysimpy.base.fleet_store import FleetStore
        h.fleet_delay = h.ctx.real("fdelay", 1) if self.delay is None else self.delay
        h.fleet_transit = h.ctx.real("ftransit", 0) if self.transit is None else self.transit
        return FleetStore(h.env, capacity=h.cap, delay=h.fleet_delay, transit_delay=h.fleet_transit)


    # the fleet's periodic timer makes every advance fork once per period: keep gaps short
    def new_gap(self, h):
        return h.ctx.real("gap", 0, 1.5)

    def final_gap(self, h):
        return h.fleet_delay + 2 * h.fleet_transit


class A_FleetEdge(A_Fleet):
    name = "Fleet"
    edge = True

    def build(self, h):
        from factorysimpy.edges.fleet import Fleet
        h.fleet_delay = h.ctx.real("fdelay", 1) if self.delay is None else self.delay
        h.fleet_transit = h.ctx.real("ftransit", 0) if self.transit is None else self.transit
        e = Fleet(h.env, "F", capacity=h.cap, delay=h.fleet_delay, transit_delay=h.fleet_transit)
        e.src_node = object()
        e.dest_node = object()
        h.edgeobj = e
        return e

    def raw(self, h):
        return h.store.inbuiltstore

    def reserve_put(self, h, prio):
        return h.store.reserve_put()

    def reserve_get(self, h, prio, theta):
        return h.store.reserve_get()


class A_Belt(Adapter):
    """belt stores, driven through their ConveyorBelt edge"""
    timed = True
    avail = "whitebox"
    edge = True
    settle_urgent = False   # (was True until fix F20: a put followed at once by a reserve_put used to read a field the item process sets on start-up)

    def __init__(self, kind="slotted", accumulating=True, cap=2, **kw):
        super().__init__(**kw)
        self.kind = kind
        self.acc = accumulating
        self.capv = cap
        self.name = f"{'Slotted' if kind == 'slotted' else 'Continuous'}BeltStore[acc={int(bool(accumulating))},cap={cap}]"

    def build(self, h):
        if self.kind == "slotted":
            from factorysimpy.edges.slotted_conveyor import ConveyorBelt
            e = ConveyorBelt(h.env, "CV", capacity=self.capv, delay=1, accumulating=1 if self.acc else 0)
        else:
            from factorysimpy.edges.continuous_conveyor import ConveyorBelt
            e = ConveyorBelt(h.env, "CV", conveyor_length=self.capv, speed=1, item_length=1,
                             accumulating=1 if self.acc else 0)
        e.src_node = object()
        e.dest_node = object()
        h.edgeobj = e
        h.cap = self.capv
        return e

    def raw(self, h):
        return h.store.belt

    def cancel_put(self, h, ev):
        return h.store.belt.reserve_put_cancel(ev)

    def cancel_get(self, h, ev):
        return h.store.belt.reserve_get_cancel(ev)


class A_BeltPrio(A_Belt):
    """slotted BeltStore with request priorities: reservations go to the store (the edge has no priority argument), puts/gets through the edge"""
    prio = True

    def __init__(self, cap=2):
        super().__init__("slotted", True, cap)
        self.name = f"SlottedBeltStore[priorities,cap={cap}]"

    def reserve_put(self, h, prio):
        return h.store.belt.reserve_put(prio)

    def reserve_get(self, h, prio, theta):
        return h.store.belt.reserve_get(prio)


def adapter(name):
    table = {
        "RPRS": lambda: A_RPRS(),
        "RRS": lambda: A_RRS(),
        "RPRFS": lambda: A_RPRFS(),
        "RPRFS_TD": lambda: A_RPRFS_TD(),
        "BUF_FIFO": lambda: A_Buffer("FIFO"),
        "BUF_LIFO": lambda: A_Buffer("LIFO"),
        "BUFE_FIFO": lambda: A_BufferEdge("FIFO", "callable"),
        "BUFE_LIFO": lambda: A_BufferEdge("LIFO", "callable"),
        "BUFE_FIFO_GEN": lambda: A_BufferEdge("FIFO", "gen"),
        "BUFE_FIFO_CONST": lambda: A_BufferEdge("FIFO", "const"),
        # fleet timing is C14's subject: the store-level families use a concrete waiting delay / transit delay (zero transit too)
        "FLEET": lambda: A_Fleet(delay=1, transit=0.5),
        "FLEET0": lambda: A_Fleet(delay=1, transit=0),
        "FLEET_SYM": lambda: A_Fleet(),
        "FLEETE": lambda: A_FleetEdge(delay=1, transit=0.5),
        "SBELT_PRIO": lambda: A_BeltPrio(2),
        "SBELT_PRIO3": lambda: A_BeltPrio(3),
        "SBELT_ACC": lambda: A_Belt("slotted", True, 2),
        "SBELT_NOACC": lambda: A_Belt("slotted", False, 2),
        "CBELT_ACC": lambda: A_Belt("continuous", True, 2),
        "CBELT_NOACC": lambda: A_Belt("continuous", False, 2),
        "SBELT_ACC3": lambda: A_Belt("slotted", True, 3),
        "CBELT_ACC3": lambda: A_Belt("continuous", True, 3),
        "CBELT_NOACC3": lambda: A_Belt("continuous", False, 3),
    }
    return table[name]()


# ---------------------------------------------------------------------------


class Harness:
    def __init__(self, ctx, ad, oracles, cap_max=None, two_procs=False, cap_fixed=None, sym_prio=False):
        load_repo()
        self.ctx = ctx
        self.ad = ad
        self.oracles = set(oracles)
        self.env = make_env()
        if isinstance(ad, A_Belt):
            self.cap = ad.capv
        elif cap_fixed is not None:
            self.cap = cap_fixed
        else:
            self.cap = ctx.int("cap", 1, cap_max)
        self.P = [Proc("P1"), Proc("P2")]
        self.two_procs = two_procs
        self.sym_prio = sym_prio
        self.toks = []
        self.items = []
        self.seq = 0
        self.item_seq = 0
        self.avail_counter = 0
        self.ncalls = 0
        self.n_cancel_granted_get = 0
        self.n_cancel_granted_put = 0
        self.mid_arrival = False
        self.reported = set()
        self.in_kstep = False
        self.early = False
        self.item_kind = "plain"
        self.polls = False
        self.in_poll = False
        self.polled_once = False
        self.store = ad.build(self)
        self.drain()

    # -- helpers -----------------------------------------------------------
    def sig(self, label):
        """signature of a failure: label @ store [context flags]"""
        fl = []
        if self.n_cancel_granted_get == 1:
            fl.append("cg1")
        elif self.n_cancel_granted_get >= 2:
            fl.append("cg2")
        if self.mid_arrival:
            fl.append("mid")
        if self.n_cancel_granted_put:
            fl.append("cp")
        if self.two_procs:
            fl.append("2p")
        if self.item_kind != "plain":
            fl.append({"equal": "eq", "falsy": "falsy", "same-id": "same-id"}[self.item_kind])
        return f"{label}@{self.ad.name}[{','.join(fl)}]"

    def fail(self, label, info=None):
        """hard failure: the path cannot continue"""
        pid = label.split(":")[0]
        if pid in self.oracles or pid == "CRASH":
            self.ctx.fail(self.sig(label), info)
        # a failure of a property that is not under test ends the path quietly
        self.ctx.hit("other-property:" + label)
        raise symx.PathInfeasible()

    def soft(self, label, info=None):
        """soft failure: recorded (once per label and path), the path continues"""
        pid = label.split(":")[0]
        if pid in self.oracles:
            s = self.sig(label)
            if s not in self.reported:
                self.reported.add(s)
                self.ctx.finding(s, info)

    def occ(self):
        return sum(1 for g in self.items if g.inside)

    def granted_unused(self, kind):
        return [t for t in self.toks if t.kind == kind and t.state == "granted"]

    def pending(self, kind):
        return [t for t in self.toks if t.kind == kind and t.state == "pending"]

    def as_proc(self, p):
        self.env._active_proc = None if getattr(p, "outside", False) else p

    def pick_proc(self):
        if self.two_procs:
            # the two caller processes take turns
            self.turn = getattr(self, "turn", 0) + 1
            return self.P[self.turn % 2]
        return self.P[0]

    # -- observation after every call / kernel step ---------------------------
    def poll(self):
        """what a polling user does between any two calls: ask the edge whether it could take / give an item (answers ignored here, C11 checks them)"""
        e = self.store
        self.as_proc(self.P[0])
        for f in ("can_put", "can_get"):
            try:
                getattr(e, f)()
            except symx.PathStop:
                raise
            except Exception as ex:
                self.fail(f"CRASH:{f}-raised-{type(ex).__name__}", {"msg": str(ex)[:120]})
        self.ctx.hit("poll")

    def observe(self, quiescent=False, kernel=False):
        ctx = self.ctx
        if self.ad.settle_urgent and not self.in_kstep:
            q = self.env._queue
            while q and q[0][1] == 0 and q[0][0] <= self.env.now:
                self.kstep()
        if self.polls == "one" and not kernel and not self.in_kstep and not self.in_poll and not self.polled_once:
            # a single poll at a call boundary chosen by the explorer
            if ctx.choice(2, "poll-here?"):
                self.polled_once = True
                self.in_poll = True
                try:
                    self.poll()
                    if self.ad.settle_urgent:
                        q = self.env._queue
                        while q and q[0][1] == 0 and q[0][0] <= self.env.now:
                            self.kstep()
                finally:
                    self.in_poll = False
        if self.polls is True and not kernel and not self.in_kstep and not self.in_poll:
            self.in_poll = True
            try:
                self.poll()
                if self.ad.settle_urgent:
                    q = self.env._queue
                    while q and q[0][1] == 0 and q[0][0] <= self.env.now:
                        self.kstep()
            finally:
                self.in_poll = False
        # availability ranks by white-box observation of ready_items
        if self.ad.avail == "whitebox" or self.ad.avail == "ghost_delay":
            ready = self.ad.ready_objs(self)
            for o in ready:
                for g in self.items:
                    if g.obj is o and g.avail_rank is None:
                        g.avail_rank = self.avail_counter
                        self.avail_counter += 1
                        if any(t.kind == "get" and t.state == "granted" for t in self.toks):
                            self.mid_arrival = True
        # newly granted tokens, in service order
        newly = [t for t in self.toks if t.state == "pending" and t.ev.triggered]
        if newly:
            if "C05" in self.oracles:
                for t in newly:
                    for p in self.toks:
                        if p.kind == t.kind and p.state == "pending" and not p.ev.triggered:
                            self.check_order(t, p)
            newly.sort(key=lambda t: t.seq)
            if self.ad.prio and len(newly) > 1:
                newly = self.sort_by_key(newly)
            for t in newly:
                t.state = "granted"
                if t.kind == "get":
                    self.bind(t)
        if "C01" in self.oracles:
            n = self.occ() + len(self.granted_unused("put"))
            if not (n <= self.cap):
                self.soft("C01:occupancy+granted-space-exceeds-capacity", {"occ": self.occ(), "granted": len(self.granted_unused("put"))})
            ctx.hit("C01:checked")
        if "C02" in self.oracles:
            inside = self.ad.contents(self)
            ghost = [g.obj for g in self.items if g.inside]
            if len(inside) != len(ghost) or any(not any(o is x for x in inside) for o in ghost):
                self.fail("C02:contents-differ-from-ledger", {"inside": repr(inside), "ledger": repr(ghost)})
        if "C05" in self.oracles and not kernel:
            self.check_queue_order()
        if quiescent or not self.ad.timed:
            self.check_no_lost_wakeup()

    def sort_by_key(self, toks):
        out = []
        for t in toks:
            i = 0
            while i < len(out) and not self.key_lt(t, out[i]):
                i += 1
            out.insert(i, t)
        return out

    def key_lt(self, a, b):
        if self.ad.prio:
            if a.prio < b.prio:
                return True
            if a.prio > b.prio:
                return False
        return a.seq < b.seq

    def check_queue_order(self):
        """C05 (mechanism named by the property: the waiting line itself): the store's queues hold the waiting requests in (priority, arrival) order"""
        raw = self.ad.raw(self)
        for kind, attr in (("put", "reserve_put_queue"), ("get", "reserve_get_queue")):
            q = getattr(raw, attr, None)
            if q is None:
                continue
            line = []
            for ev in list(q):
                t = next((t for t in self.toks if t.ev is ev), None)
                if t is not None and t.kind == kind and t.state == "pending" and not t.ev.triggered:
                    line.append(t)
            for a, b in zip(line, line[1:]):
                self.ctx.hit("C05:queue-order-checked")
                if self.key_lt(b, a):
                    self.soft("C05:waiting-line-not-in-priority-then-arrival-order", {"ahead": repr(a), "behind": repr(b)})

    def check_order(self, granted, still_pending):
        """C05: a token was granted while another stayed pending: granted must be ahead in (priority, arrival)."""
        self.ctx.hit("C05:order-checked")
        if not self.key_lt(granted, still_pending):
            self.soft("C05:served-out-of-order", {"granted": repr(granted), "pending": repr(still_pending)})

    # -- reference binding (C06 / C02) -----------------------------------------
    def available(self):
        """ghost items that a retrieval could be bound to now, in availability order"""
        if self.ad.avail == "immediate":
            return [g for g in self.items if g.inside]
        xs = [g for g in self.items if g.inside and g.avail_rank is not None]
        xs.sort(key=lambda g: g.avail_rank)
        return xs

    def bound_items(self):
        return [t.bound for t in self.toks if t.kind == "get" and t.state == "granted" and t.bound is not None]

    def bind(self, t):
        bound = self.bound_items()
        cands = [g for g in self.available() if g not in bound]
        if self.ad.filt and t.theta is not None:
            cands = [g for g in cands if g.obj.k >= t.theta]
        if not cands:
            if "C02" in self.oracles or "C06" in self.oracles:
                self.fail("C02:retrieval-granted-without-a-free-available-item", {"tok": repr(t)})
            t.bound = None
            return
        t.bound = cands[-1] if self.ad.lifo else cands[0]

    def check_no_lost_wakeup(self):
        if "C04" not in self.oracles:
            return
        ctx = self.ctx
        pp = self.pending("put")
        if pp:
            ctx.hit("C04:pending-put-checked")
            n = self.occ() + len(self.granted_unused("put"))
            if not (n >= self.cap) and self.space_admissible():
                self.soft("C04:space-request-pending-although-space-is-free", {"occ": self.occ(), "granted": len(self.granted_unused("put"))})
        pg = self.pending("get")
        if pg:
            ctx.hit("C04:pending-get-checked")
            head = self.sort_by_key(pg)[0]
            bound = self.bound_items()
            if self.ad.avail == "ghost_delay":
                free = [g for g in self.items if g.inside and g not in bound and g.t_put + g.delay <= self.env.now]
                nfree = len(free) - sum(1 for t in self.granted_unused("get") if t.bound is None)
                if nfree > 0:
                    self.soft("C04:retrieval-pending-although-an-item-is-available", {"head": repr(head)})
                return
            free = [g for g in self.available() if g not in bound]
            if self.ad.filt:
                if head.theta is not None:
                    free = [g for g in free if g.obj.k >= head.theta]
                else:
                    free = [g for g in free if self.env.now >= g.t_put]   # default filter with trigger_delay 0
            if free:
                self.soft("C04:retrieval-pending-although-an-item-is-available", {"head": repr(head)})

    def space_admissible(self):
        """belts admit only when spacing / stall conditions allow; other stores always"""
        if isinstance(self.ad, A_Belt):
            return False   # belt admission is decided by C12/C13 oracles
        return True

    # -- calls --------------------------------------------------------------
    def new_tok(self, kind, ev, prio, proc, theta=None):
        t = Tok(kind, ev, prio, self.seq, proc, theta)
        self.seq += 1
        self.toks.append(t)
        return t

    def do_reserve_put(self, prio=None, proc=None):
        proc = proc or (self.pick_proc() if self.two_procs else self.P[0])
        if self.ad.prio and prio is None:
            prio = self.ctx.int("p") if self.sym_prio else 0
        self.as_proc(proc)
        ev = self.guard(lambda: self.ad.reserve_put(self, prio), "reserve_put", prop="C01")
        t = self.new_tok("put", ev, prio, proc)
        self.ctx.log("reserve_put", t.seq, ev.triggered)
        self.observe()
        return t

    def do_reserve_get(self, prio=None, proc=None, theta=None):
        proc = proc or (self.pick_proc() if self.two_procs else self.P[0])
        if self.ad.prio and prio is None:
            prio = self.ctx.int("p") if self.sym_prio else 0
        self.as_proc(proc)
        ev = self.guard(lambda: self.ad.reserve_get(self, prio, theta), "reserve_get", prop="C02")
        t = self.new_tok("get", ev, prio, proc, theta)
        self.ctx.log("reserve_get", t.seq, ev.triggered)
        self.observe()
        return t

    def guard(self, f, what, valid=True, prop="CRASH"):
        try:
            return f()
        except symx.PathStop:
            raise
        except Exception as e:
            if prop in self.oracles:
                self.fail(f"{prop}:{what}-raised-{type(e).__name__}", {"msg": str(e)[:120]})
            self.fail(f"CRASH:{what}-raised-{type(e).__name__}", {"msg": str(e)[:120]})

    def do_put(self, t, delay=None, key=None):
        """well-formed put with a granted token by its owner"""
        obj = ITEM_CLASSES[self.item_kind](f"i{self.item_seq}", key)
        self.item_seq += 1
        if delay is None:
            delay = self.ad.new_delay(self)
        self.as_proc(t.proc)
        g = GItem(obj, self.env.now, delay, self.item_seq)
        try:
            self.ad.put(self, t, obj, delay)
        except symx.PathStop:
            raise
        except Exception as e:
            self.fail(f"C01:put-with-granted-reservation-raised-{type(e).__name__}", {"msg": str(e)[:120]})
        t.state = "used"
        self.items.append(g)
        if self.ad.avail == "immediate":
            g.avail_rank = self.avail_counter
            self.avail_counter += 1
        self.ctx.log("put", t.seq, obj.id, self.env.now)
        self.observe()
        return g

    def do_get(self, t):
        self.as_proc(t.proc)
        try:
            obj = self.ad.get(self, t)
        except symx.PathStop:
            raise
        except Exception as e:
            self.fail(f"C02:get-with-granted-reservation-raised-{type(e).__name__}", {"msg": str(e)[:120], "tok": repr(t)})
        g = next((g for g in self.items if g.obj is obj), None)
        if g is None or not g.inside:
            self.fail("C02:get-returned-an-item-not-inside", {"obj": repr(obj)})
        self.ctx.hit("C02:get-checked")
        if "C06" in self.oracles:
            self.ctx.hit("C06:get-checked")
            if t.bound is not None and g is not t.bound:
                what = "filter" if (self.ad.filt and t.theta is not None and not (obj.k >= t.theta)) else ("lifo" if self.ad.lifo else "fifo")
                self.soft(f"C06:{what}-discipline-violated", {"got": obj.id, "expected": t.bound.obj.id})
                # keep the reference model in step with the store: whoever was bound to g swaps
                for u in self.toks:
                    if u is not t and u.kind == "get" and u.state == "granted" and u.bound is g:
                        u.bound = t.bound
            elif self.ad.filt and t.theta is not None and not (obj.k >= t.theta):
                self.soft("C06:filter-discipline-violated", {"got": obj.id})
        if "C11" in self.oracles and self.ad.avail == "ghost_delay":
            if not (g.t_put + g.delay <= self.env.now):
                self.fail("C11:item-retrieved-before-its-delay-elapsed", {"item": obj.id})
        g.inside = False
        t.state = "used"
        t.bound = None
        self.ctx.log("get", t.seq, obj.id, self.env.now)
        self.observe()
        return g

    def do_cancel(self, t):
        self.as_proc(t.proc)
        was = t.state
        f = self.ad.cancel_put if t.kind == "put" else self.ad.cancel_get
        try:
            f(self, t.ev)
        except symx.PathStop:
            raise
        except Exception as e:
            side = "C01" if t.kind == "put" else "C02"
            if side in self.oracles:
                self.fail(f"{side}:cancel-of-own-{was}-reservation-raised-{type(e).__name__}", {"msg": str(e)[:120]})
            self.fail(f"C07:cancel-of-own-{was}-reservation-raised-{type(e).__name__}", {"msg": str(e)[:120]})
        t.state = "cancelled"
        t.bound = None
        if was == "granted":
            if t.kind == "get":
                self.n_cancel_granted_get += 1
            else:
                self.n_cancel_granted_put += 1
        self.ctx.hit(f"cancel-{was}-{t.kind}")
        self.ctx.log("cancel", t.seq, was)
        self.observe()

    # -- kernel ---------------------------------------------------------------
    def kstep(self):
        self.in_kstep = True
        try:
            self.env.step()
        except symx.PathStop:
            raise
        except simpy.core.EmptySchedule:
            raise
        except Exception as e:
            msg = str(e)
            if "exceeds capacity" in msg:
                self.fail("C01:capacity-exceeded-when-item-became-available", {"msg": msg[:120]})
            self.fail(f"CRASH:kernel-step-raised-{type(e).__name__}", {"msg": msg[:160]})
        finally:
            self.in_kstep = False
        self.observe(kernel=True)

    def drain(self):
        """process every event scheduled for the current instant"""
        n = 0
        while self.env._queue and self.env._queue[0][0] <= self.env.now:
            self.kstep()
            n += 1
            if n > 2000:
                self.fail("CRASH:zero-time-livelock", {"events": n})
        self.observe(quiescent=True)

    def advance(self, g=None):
        """let simulated time pass by a symbolic amount g >= 0, then finish that instant"""
        if g is None:
            g = self.ad.new_gap(self)
        self.drain()
        ev = self.env.timeout(g)
        n = 0
        while not ev.processed:
            self.kstep()
            n += 1
            if n > 4000:
                self.fail("CRASH:zero-time-livelock", {"events": n})
        self.drain()
        self.ctx.log("advance", self.env.now)

    def advance_early(self, g=None):
        """let time pass by g and stop at the START of that instant: the wake-up is URGENT, as if the caller had been
        scheduled before everything else that happens then; the instant is not drained, so the next call comes first"""
        if g is None:
            g = self.ad.new_gap(self)
        self.drain()
        ev = self.env.event()
        ev._ok = True
        ev._value = None
        self.env.schedule(ev, 0, g)
        n = 0
        while not ev.processed:
            self.kstep()
            n += 1
            if n > 4000:
                self.fail("CRASH:zero-time-livelock", {"events": n})
        self.ctx.log("advance-early", self.env.now)

    # -- free step ---------------------------------------------------------------
    def free_step(self, allow_advance=True):
        ctx = self.ctx
        acts = [("rp", None), ("rg", None)]
        for t in self.toks:
            if t.state == "granted":
                acts.append(("use", t))
        for t in self.toks:
            if t.state in ("pending", "granted"):
                acts.append(("cancel", t))
        if self.ad.timed and allow_advance:
            acts.append(("adv", None))
            if self.early:
                acts.append(("adv-early", None))
        a, t = acts[ctx.choice(len(acts), "act")]
        proc = self.pick_proc() if a in ("rp", "rg") else None
        if a == "rp":
            self.do_reserve_put(proc=proc)
        elif a == "rg":
            theta = None
            if self.ad.filt and ctx.choice(2, "filter?"):
                theta = ctx.real("theta")
            self.do_reserve_get(proc=proc, theta=theta)
        elif a == "use":
            if t.kind == "put":
                key = ctx.choice(2, "key") if self.ad.filt else None
                self.do_put(t, key=key)
            else:
                self.do_get(t)
        elif a == "cancel":
            self.do_cancel(t)
        elif a == "adv-early":
            self.advance_early()
        else:
            self.advance()
        ctx.hit("step:" + a)


# ---------------------------------------------------------------------------
# scenario families


def _prefix_retrieval(h, N, with_transit=True, with_space=False, R2=2, USE=True, RMAX=9, S=2, TRN=1):
    """Build a state with n retrievable items, <=1 in-transit item, retrieval reservations of which a
    subset was cancelled again, optionally outstanding space reservations.  Public API only."""
    ctx = h.ctx
    ad = h.ad
    n_ready = ctx.choice(N + 1, "n_ready")
    for i in range(n_ready):
        t = h.do_reserve_put()
        ctx.assume(t.state == "granted")
        key = ctx.choice(2, "key") if ad.filt else None
        g = h.do_put(t, key=key)
        if ad.timed:
            if ad.avail == "ghost_delay":
                gap = ctx.real("gap", 0)
                ctx.assume(gap >= g.delay)
                h.advance(gap)
            elif isinstance(ad, A_Belt):
                h.advance(ctx.real("gap", 1, 1))
            else:
                h.drain()
    if isinstance(ad, (A_Fleet,)):
        # one trip (or several) until everything loaded so far has been delivered
        k = 0
        while any(g.inside and g.avail_rank is None for g in h.items):
            h.advance(h.fleet_delay + 2 * h.fleet_transit)
            k += 1
            if k > 4:
                ctx.assume(False)
    if isinstance(ad, A_Belt):
        k = 0
        while any(g.inside and g.avail_rank is None for g in h.items) and k < 6:
            h.advance(ctx.real("gap", 1, 1))
            k += 1
    if with_transit and isinstance(ad, A_Fleet):
        # items loaded after the delivered ones; a symbolic gap later they are still waiting, on the trip, or delivered too
        n_loaded = ctx.choice(TRN + 1, "n_loaded")
        for i in range(n_loaded):
            t = h.do_reserve_put()
            ctx.assume(t.state == "granted")
            h.do_put(t)
        if n_loaded:
            h.advance()
    n_transit = 0
    if with_transit and ad.timed and ad.avail == "ghost_delay":
        n_transit = ctx.choice(TRN + 1, "n_transit")
        for i in range(n_transit):
            t = h.do_reserve_put()
            ctx.assume(t.state == "granted")
            h.do_put(t)
    # retrieval reservations
    r = ctx.choice(min(n_ready + 2, RMAX + 1), "n_reserve_get")
    toks = []
    for i in range(r):
        theta = None
        if ad.filt and ctx.choice(2, "filter?"):
            theta = ctx.real("theta")
        toks.append(h.do_reserve_get(theta=theta))
    # cancel a subset (any order is obtained because the free steps can cancel more)
    for t in list(toks):
        if t.state in ("granted", "pending") and ctx.choice(2, "cancel?"):
            h.do_cancel(t)
    # a second round: new retrieval reservations, and some granted ones are used
    r2 = ctx.choice(R2 + 1, "n_reserve_get_2")
    for i in range(r2):
        theta = None
        if ad.filt and ctx.choice(2, "filter?"):
            theta = ctx.real("theta")
        h.do_reserve_get(theta=theta)
    for t in list(h.toks):
        if USE and t.kind == "get" and t.state == "granted" and ctx.choice(2, "use?"):
            h.do_get(t)
    if with_space:
        s = ctx.choice(S + 1, "n_reserve_put")
        for i in range(s):
            h.do_reserve_put()
    return h


def _prefix_space(h, N):
    """Build a state with n items (ready or in transit), s space reservations (granted or pending, some cancelled)."""
    ctx = h.ctx
    ad = h.ad
    n = ctx.choice(N + 1, "n_items")
    for i in range(n):
        t = h.do_reserve_put()
        ctx.assume(t.state == "granted")
        key = ctx.choice(2, "key") if ad.filt else None
        h.do_put(t, key=key)
    if ad.timed and ctx.choice(2, "advance?"):
        h.advance()
    s = ctx.choice(4, "n_reserve_put")
    toks = [h.do_reserve_put() for _ in range(s)]
    for t in toks:
        if ctx.choice(2, "cancel?"):
            h.do_cancel(t)
    return h


def _prefix_priority(h, N, side):
    """m waiting requests with unconstrained integer priorities on one side."""
    ctx = h.ctx
    ad = h.ad
    m = 2 + ctx.choice(N - 1, "n_waiting")
    if side == "get":
        toks = []
        if ad.filt and ctx.choice(2, "filtered-head?"):
            toks.append(h.do_reserve_get(theta=ctx.real("theta")))
        toks += [h.do_reserve_get() for _ in range(m)]
        for t in toks:
            ctx.assume(t.state == "pending")
        # items may arrive while they wait (a filtered head can hold the others back)
        for i in range(ctx.choice(3, "n_items_after")):
            t = h.do_reserve_put()
            if t.state != "granted":
                break
            h.do_put(t, key=ctx.choice(2, "key") if ad.filt else None)
        # a late request, then one more item: the late one must not overtake an earlier request of the same priority
        if ctx.choice(2, "late-request?"):
            h.do_reserve_get()
            if ctx.choice(2, "one-more-item?"):
                t = h.do_reserve_put()
                if t.state == "granted":
                    h.do_put(t, key=ctx.choice(2, "key") if ad.filt else None)
    else:
        # fill the store first: capacity is bounded in this family
        c = int(h.cap)
        for i in range(c):
            t = h.do_reserve_put()
            key = ctx.choice(2, "key") if ad.filt else None
            if t.state == "granted" and ctx.choice(2, "fill-with-item?"):
                h.do_put(t, key=key)
        toks = [h.do_reserve_put() for _ in range(m)]
        for t in toks:
            ctx.assume(t.state == "pending")
        # some of the waiting producers give up, then a late request joins the line: it must not get ahead of an earlier one of its priority
        if getattr(h, "late_put", False) and ctx.choice(2, "withdraw-and-late-request?"):
            for t in toks[:-1]:
                if ctx.choice(2, "withdraw?"):
                    h.do_cancel(t)
            h.do_reserve_put()
    return h


def _prefix_spaceget(h, N):
    """n ready items, one granted retrieval, s space requests (granted while there is room, then pending): what a get must wake up"""
    ctx = h.ctx
    ad = h.ad
    n = 1 + ctx.choice(N, "n_ready")
    for i in range(n):
        t = h.do_reserve_put()
        ctx.assume(t.state == "granted")
        g = h.do_put(t, key=0 if ad.filt else None)
        if ad.timed and ad.avail == "ghost_delay":
            gap = ctx.real("gap", 0)
            ctx.assume(gap >= g.delay)
            h.advance(gap)
    if ad.timed and ad.avail != "ghost_delay":
        h.advance(ad.final_gap(h))
    for _ in range(1 + ctx.choice(2, "n_reserve_get")):
        h.do_reserve_get()
    for _ in range(1 + ctx.choice(3, "n_reserve_put")):
        h.do_reserve_put()
    return h


def _prefix_arrivals(h, N):
    """m retrieval requests wait on an empty store, then n items are put (symbolic delays: they may become available in one instant)"""
    ctx = h.ctx
    ad = h.ad
    m = 1 + ctx.choice(N, "n_waiting_gets")
    toks = [h.do_reserve_get() for _ in range(m)]
    n = 1 + ctx.choice(N, "n_puts")
    same = ctx.choice(2, "same-delay?") if ad.avail == "ghost_delay" else 0
    d0 = ad.new_delay(h) if same else None
    for i in range(n):
        t = h.do_reserve_put()
        if t.state != "granted":
            break
        key = ctx.choice(2, "key") if ad.filt else None
        h.do_put(t, delay=d0, key=key)
    return h


def scenario(store, family, N=3, K=2, oracles=("C01", "C02", "C04", "C05", "C06"), cap_max=None, cap_fixed=None,
             sym_prio=False, R2=2, USE=True, TR=True, twin=False, RMAX=9, S=2, EARLY=False, DRAIN=True, PROCS=1, POLL=False, ITEMS="plain", LATEPUT=False):
    """returns fn(ctx) exploring prefix(family, N) followed by K free calls on the given store."""
    def fn(ctx):
        ad = adapter(store)
        cm = cap_max
        if family == "prio_put" and cm is None and cap_fixed is None:
            cm = 2
        # PROCS=1: one caller process owns every reservation; 2: two caller processes take turns; "both": either (a choice)
        two = bool(ctx.choice(2, "two-caller-processes?")) if PROCS == "both" else PROCS == 2
        h = Harness(ctx, ad, oracles, cap_max=cm, cap_fixed=cap_fixed, two_procs=two,
                    sym_prio=sym_prio or family.startswith("prio"))
        h.early = EARLY
        h.item_kind = ITEMS
        h.late_put = LATEPUT
        # POLL: can_put()/can_get() of the edge are called between any two calls of the history (they must be free of side effects)
        h.polls = (POLL if POLL == "one" else bool(POLL)) if getattr(ad, "edge", False) else False
        if h.polls:
            h.observe()
        if family == "retrieval":
            _prefix_retrieval(h, N, with_transit=TR, R2=R2, USE=USE, RMAX=RMAX, S=S)
        elif family == "both":
            _prefix_retrieval(h, N, with_transit=TR, with_space=True, R2=R2, USE=USE, RMAX=RMAX, S=S)
        elif family == "space":
            _prefix_space(h, N)
        elif family == "prio_get":
            _prefix_priority(h, N, "get")
        elif family == "prio_put":
            _prefix_priority(h, N, "put")
        elif family == "arrivals":
            _prefix_arrivals(h, N)
        elif family == "spaceget":
            _prefix_spaceget(h, N)
        elif family == "empty":
            pass
        else:
            raise ValueError(family)
        ctx.hit("prefix-done")
        for _ in range(K):
            h.free_step()
        if ad.timed:
            h.advance(ad.final_gap(h))
        else:
            h.drain()
        if DRAIN and family in ("retrieval", "both"):
            # take out whatever is retrievable, one reservation at a time: an order the store has silently corrupted shows here
            for t in list(h.toks):
                if t.kind == "get" and t.state == "pending":
                    h.do_cancel(t)
            for _ in range(N + 2):
                t = h.do_reserve_get()
                if t.state != "granted":
                    h.do_cancel(t)
                    break
                h.do_get(t)
            ctx.hit("drained")
        ctx.hit("complete")
        if twin:
            ctx.fail("TWIN:reached-end")
    return fn


# ---------------------------------------------------------------------------
# C07: one ill-formed call on a constructed state


def _snapshot(h):
    s = h.ad.raw(h)
    snap = {}
    for name in ("items", "ready_items", "reserve_put_queue", "reservations_put", "reserve_get_queue",
                 "reservations_get", "reserved_events", "reserved_items"):
        if hasattr(s, name):
            snap[name] = [id(x[0]) if isinstance(x, tuple) else id(x) for x in getattr(s, name)]
    snap["triggered"] = [t.ev.triggered for t in h.toks]
    snap["scheduled"] = len(h.env._queue)
    return snap


ILL_KINDS = ["put-unknown-token", "get-unknown-token", "put-other-process-token", "get-other-process-token",
             "put-used-token", "get-used-token", "put-cancelled-token", "get-cancelled-token",
             "put-pending-token", "get-pending-token", "put-with-get-token", "get-with-put-token",
             "cancel-put-unknown-token", "cancel-get-unknown-token", "cancel-put-used-token", "cancel-get-used-token",
             "cancel-put-cancelled-token", "cancel-get-cancelled-token"]


def _ill_formed_call(h):
    ctx = h.ctx
    kind = ILL_KINDS[ctx.choice(len(ILL_KINDS), "ill-kind")]
    op, what = kind.split("-", 1)
    side = "put" if (kind.startswith("put") or kind.startswith("cancel-put")) else "get"

    def pick(pred):
        c = [t for t in h.toks if pred(t)]
        ctx.assume(bool(c))
        return c[ctx.choice(len(c), "which-token")]

    caller = None
    if "unknown-token" in kind:
        ev = h.env.event()
        ev.requesting_process = h.P[0]
        ev.resourcename = h.ad.raw(h)
        caller = h.P[0]
    elif "other-process-token" in kind:
        t = pick(lambda t: t.kind == side and t.state == "granted")
        ev = t.ev
        caller = h.P[1] if t.proc is h.P[0] else h.P[0]
    elif "used-token" in kind:
        t = pick(lambda t: t.kind == side and t.state == "used")
        ev, caller = t.ev, t.proc
    elif "cancelled-token" in kind:
        t = pick(lambda t: t.kind == side and t.state == "cancelled")
        ev, caller = t.ev, t.proc
    elif "pending-token" in kind:
        t = pick(lambda t: t.kind == side and t.state == "pending")
        ev, caller = t.ev, t.proc
    elif kind == "put-with-get-token":
        t = pick(lambda t: t.kind == "get" and t.state == "granted")
        ev, caller = t.ev, t.proc
    elif kind == "get-with-put-token":
        t = pick(lambda t: t.kind == "put" and t.state == "granted")
        ev, caller = t.ev, t.proc
    before = _snapshot(h)
    h.as_proc(caller)
    raised = None
    try:
        if op == "cancel":
            (h.ad.cancel_put if side == "put" else h.ad.cancel_get)(h, ev)
        elif op == "put":
            fake = Tok("put", ev, 0, -1, caller)
            h.ad.put(h, fake, It("bogus", 0), h.ad.new_delay(h))
        else:
            fake = Tok("get", ev, 0, -1, caller)
            h.ad.get(h, fake)
    except symx.PathStop:
        raise
    except Exception as e:
        raised = e
    ctx.hit("C07:ill-formed:" + kind)
    if raised is None:
        h.fail(f"C07:{kind}-was-accepted")
    if not isinstance(raised, RuntimeError):
        h.fail(f"C07:{kind}-raised-{type(raised).__name__}-instead-of-RuntimeError", {"msg": str(raised)[:100]})
    after = _snapshot(h)
    if after != before:
        diff = [k for k in before if before[k] != after.get(k)]
        h.fail(f"C07:{kind}-changed-the-store", {"changed": diff})
    # ... and the rejected call must not have broken anything: every granted reservation still works
    for t in list(h.toks):
        if t.state == "granted":
            if t.kind == "put":
                try:
                    h.as_proc(t.proc)
                    h.ad.put(h, t, It("late", 0), h.ad.new_delay(h))
                    t.state = "used"
                    if h.ad.timed:
                        h.drain()
                except symx.PathStop:
                    raise
                except Exception as e:
                    h.fail(f"C07:valid-put-refused-after-rejected-{kind}", {"msg": str(e)[:100]})
            else:
                try:
                    h.as_proc(t.proc)
                    h.ad.get(h, t)
                    t.state = "used"
                    if h.ad.timed:
                        h.drain()
                except symx.PathStop:
                    raise
                except Exception as e:
                    h.fail(f"C07:valid-get-refused-after-rejected-{kind}", {"msg": str(e)[:100]})


def scenario_c07(store, N=2, K=1, cap_max=None, twin=False, T=2, OUTSIDE=False):
    def fn(ctx):
        ad = adapter(store)
        h = Harness(ctx, ad, ("C07",), cap_max=cap_max, two_procs=True)
        if OUTSIDE:
            # the second caller is set-up code running outside any process: its reservations are owned by "no process"
            h.P[1].outside = True
        # a populated state: items, used / cancelled / granted / pending tokens of two processes on both sides
        n = ctx.choice(N + 1, "n_items")
        for i in range(n):
            t = h.do_reserve_put(proc=h.pick_proc())
            ctx.assume(t.state == "granted")
            h.do_put(t, key=0 if ad.filt else None)
        if ad.timed:
            h.advance(ad.final_gap(h) if isinstance(ad, (A_Fleet, A_Belt)) else None)
        for i in range(ctx.choice(T + 1, "n_reserve_get")):
            h.do_reserve_get(proc=h.pick_proc())
        for i in range(ctx.choice(T + 1, "n_reserve_put")):
            h.do_reserve_put(proc=h.pick_proc())
        for t in list(h.toks):
            if t.state in ("pending", "granted") and ctx.choice(2, "cancel?"):
                h.do_cancel(t)
        for t in list(h.toks):
            if t.state == "granted" and t.kind == "get" and ctx.choice(2, "use?"):
                h.do_get(t)
        for t in reversed(list(h.toks)):
            if t.state == "granted" and t.kind == "put" and ctx.choice(2, "use-put?"):
                h.do_put(t, key=0 if ad.filt else None)
        for _ in range(K):
            if ctx.choice(2, "free-step?"):
                h.free_step(allow_advance=False)
        ctx.hit("prefix-done")
        _ill_formed_call(h)
        ctx.hit("complete")
        if twin:
            ctx.fail("TWIN:reached-end")
    return fn


# ---------------------------------------------------------------------------
# C11: can_put / can_get / occupancy / delay exactness on Buffer and Fleet edges


def _probe(h, quiescent):
    ctx = h.ctx
    e = h.store
    ghost_occ = h.occ()
    occ = e.occupancy() if hasattr(e, "occupancy") and h.ad.name.startswith("Buffer") else e.get_occupancy()
    ctx.hit("C11:probe")
    if occ != ghost_occ:
        h.soft("C11:occupancy-wrong", {"reported": occ, "actual": ghost_occ})
    # can_put <=> a reservation issued now is granted at once
    cp = e.can_put()
    h.as_proc(h.P[0])
    ev = h.ad.reserve_put(h, 0)
    granted = ev.triggered
    h.ad.cancel_put(h, ev)
    if bool(cp) != bool(granted):
        h.soft("C11:can_put-disagrees-with-reservation", {"can_put": bool(cp), "granted": bool(granted)})
    cg = e.can_get()
    ev = h.ad.reserve_get(h, 0, None)
    granted = ev.triggered
    h.ad.cancel_get(h, ev)
    if bool(cg) != bool(granted):
        h.soft("C11:can_get-disagrees-with-reservation", {"can_get": bool(cg), "granted": bool(granted)})
    if quiescent and h.ad.avail == "ghost_delay" and not h.pending("get"):
        # an item put at t with delay d is retrievable from t+d on (and not before)
        ready = [g for g in h.items if g.inside and g.t_put + g.delay <= h.env.now]
        free = len(ready) - len(h.granted_unused("get"))
        if (free > 0) != bool(granted):
            h.soft("C11:item-not-retrievable-exactly-from-t+d", {"free_by_delay": free, "granted": bool(granted)})
    h.observe()


def scenario_c11(store, N=2, K=2, cap_max=None, twin=False, R2=1, RMAX=9, S=2, TRN=1, family="retrieval"):
    def fn(ctx):
        ad = adapter(store)
        h = Harness(ctx, ad, ("C11",), cap_max=cap_max)
        if family == "spaceget":
            _prefix_spaceget(h, N)
        else:
            _prefix_retrieval(h, N, with_transit=True, with_space=True, R2=R2, USE=False, RMAX=RMAX, S=S, TRN=TRN)
        ctx.hit("prefix-done")
        _probe(h, False)
        for _ in range(K):
            h.free_step()
            _probe(h, False)
        h.advance(ad.final_gap(h))
        _probe(h, True)
        # take out whatever is retrievable now: every item handed over must have served its own delay (checked in do_get)
        for t in list(h.toks):
            if t.kind == "get" and t.state == "granted":
                h.do_get(t)
        for _ in range(4):
            t = h.do_reserve_get()
            if t.state != "granted":
                h.do_cancel(t)
                break
            h.do_get(t)
        ctx.hit("complete")
        if twin:
            ctx.fail("TWIN:reached-end")
    return fn
