"""M0 - single-component kernels."""
from __future__ import annotations

from .simenv import make_env, load_repo


def prs_scenario(n=3, twin=False):
    """PriorityReqStore: n waiting get (or put) requests with symbolic priorities issued at symbolic times;
    they must be served in (priority, request time, arrival) order."""
    def fn(ctx):
        load_repo()
        from factorysimpy.base.priority_req_store import PriorityReqStore
        env = make_env()
        store = PriorityReqStore(env, capacity=1)
        side = ctx.choice(2, "side")
        m = 2 + ctx.choice(n - 1, "n_requests")
        pr = [ctx.int("p") for _ in range(m)]
        tm = [ctx.real("t", 0) for _ in range(m)]
        issued = []
        served = []

        def requester(i):
            yield env.timeout(tm[i])
            issued.append(i)
            if side == 0:
                req = store.get(priority=pr[i])
            else:
                req = store.put(("item", i), priority=pr[i])
            yield req
            served.append(i)

        def driver():
            # let every request be issued first, then serve them one at a time
            T = 0
            for t in tm:
                if t > T:
                    T = t
            yield env.timeout(T + 1)
            for k in range(m):
                if side == 0:
                    yield store.put(("x", k))
                else:
                    yield store.get()
                yield env.timeout(1)

        if side == 1:
            store.items.append(("pre", 0))   # a full store: every put request has to wait
        for i in range(m):
            env.process(requester(i))
        env.process(driver())
        env.run()
        ctx.hit("C05:order-checked")
        if len(served) != m:
            ctx.fail("C05:request-never-served@PriorityReqStore", {"served": served})
        pos = {i: k for k, i in enumerate(issued)}
        for a, b in zip(served, served[1:]):
            # a was served before b: key(a) <= key(b), and on equal keys a was issued first
            if pr[a] > pr[b]:
                ctx.fail("C05:served-out-of-order@PriorityReqStore[priority]", {"served": served})
            if pr[a] == pr[b]:
                if tm[a] > tm[b]:
                    ctx.fail("C05:served-out-of-order@PriorityReqStore[time]", {"served": served})
                if tm[a] == tm[b] and pos[a] > pos[b]:
                    ctx.fail("C05:served-out-of-order@PriorityReqStore[fcfs]", {"served": served, "issued": issued})
        ctx.log("served", tuple(served))
        ctx.hit("complete")
        if twin:
            ctx.fail("TWIN:reached-end")
    return fn
