"""M0 - single-component kernels."""
from __future__ import annotations

from .simenv import make_env, load_repo


def prs_scenario(n=3, twin=False):
    """PriorityReqStore: n waiting get (or put) requests with symbolic priorities issued at symbolic times;
    they must be served in (priority, request time, arrival) order."""
    def fn(ctx):
        load_repo()
        from factorysimpy.base.priority_req_store import PriorityReqStore
        env = make_env()
        store = PriorityReqStore(env, capacity=1)
        side = ctx.choice(2, "side")
        m = 2 + ctx.choice(n - 1, "n_requests")
        pr = [ctx.int("p") for _ in range(m)]
        tm = [ctx.real("t", 0) for _ in range(m)]
        issued = []
        served = []

        def requester(i):
            yield env.timeout(tm[i])
            issued.append(i)
            if side == 0:
                req = store.get(priority=pr[i])
            else:
                req = store.put(("item", i), priority=pr[i])
            yield req
            served.append(i)

        def driver():
            # let every request be issued first, then serve them one at a time
            T = 0
            for t in tm:
                if t > T:
                    T = t
            yield env.timeout(T + 1)
            for k in range(m):
                if side == 0:
                    yield store.put(("x", k))
                else:
                    yield store.get()
                yield env.timeout(1)

        if side == 1:
            store.items.append(("pre", 0))   # a full store: every put request has to wait
        for i in range(m):
            env.process(requester(i))
        env.process(driver())
        env.run()
        ctx.hit("C05:order-checked")
        if len(served) != m:
            ctx.fail("C05:request-never-served@PriorityReqStore", {"served": served})
        pos = {i: k for k, i in enumerate(issued)}
        for a, b in zip(served, served[1:]):
            # a was served before b: key(a) <= key(b), and on equal keys a was issued first
            if pr[a] > pr[b]:
                ctx.fail("C05:served-out-of-order@PriorityReqStore[priority]", {"served": served})
            if pr[a] == pr[b]:
                if tm[a] > tm[b]:
                    ctx.fail("C05:served-out-of-order@PriorityReqStore[time]", {"served": served})
                if tm[a] == tm[b] and pos[a] > pos[b]:
                    ctx.fail("C05:served-out-of-order@PriorityReqStore[fcfs]", {"served": served, "issued": issued})
        ctx.log("served", tuple(served))
        ctx.hit("complete")
        if twin:
            ctx.fail("TWIN:reached-end")
    return fn


def selector_scenario(nmax=4, twin=False):
    """RoundRobin_edge_selector; _get_in/out_edge_index range checks of every node class (answers chosen by the solver, out of range included)"""
    def fn(ctx):
        load_repo()
        from factorysimpy.utils.utils import get_edge_selector
        from factorysimpy.nodes.machine import Machine
        from factorysimpy.nodes.splitter import Splitter
        from factorysimpy.nodes.combiner import Combiner
        env = make_env()
        which = ctx.choice(4, "what")
        n = 1 + ctx.choice(nmax, "n_edges")

        class N:
            pass
        if which == 0:
            node = N()
            side = ["in", "out"][ctx.choice(2, "side")]
            setattr(node, side + "_edges", [object() for _ in range(n)])
            g = get_edge_selector("ROUND_ROBIN", node, env, side.upper())
            seq = [next(g) for _ in range(2 * n + 1)]
            ctx.hit("C15:range-checked")
            if seq != [k % n for k in range(2 * n + 1)]:
                ctx.fail("C15:round-robin-sequence-wrong", {"n": n, "seq": seq})
        else:
            cls = [None, Machine, Splitter, Combiner][which]
            kw = {}
            if cls is Combiner:
                kw["target_quantity_of_each_item"] = [1] * n
            node = cls(env, "X", **kw)
            edges = [object() for _ in range(n)]
            node.in_edges = list(edges)
            node.out_edges = list(edges)
            side = ["in", "out"][ctx.choice(2, "side")]
            if cls is Combiner and side == "in":
                ctx.assume(False)
            v = ctx.choice(n + 2, "answer") - 1      # -1 .. n
            calls = []
            kind = ctx.choice(3, "policy-kind")

            def f():
                calls.append(1)
                return v

            def gen():
                while True:
                    calls.append(1)
                    yield v
            pol = [f, gen(), v][kind]
            setattr(node, side + "_edge_selection", pol)
            hist_before = list(node.stats[side + "_edge_selection"])
            err = None
            try:
                r = getattr(node, f"_get_{side}_edge_index")()
            except symx_stop():
                raise
            except Exception as e:
                err = e
            ctx.hit("C15:range-checked")
            if 0 <= v < n:
                if err is not None:
                    ctx.fail(f"C15:valid-index-rejected@{cls.__name__}", {"v": v, "n": n, "err": repr(err)})
                if r != v:
                    ctx.fail(f"C15:policy-answer-not-obeyed@{cls.__name__}", {"v": v, "r": r})
                if node.stats[side + "_edge_selection"] != hist_before + [v]:
                    ctx.fail(f"C15:answer-not-recorded-once@{cls.__name__}", {})
            else:
                if err is None:
                    ctx.fail(f"C15:out-of-range-index-accepted@{cls.__name__}", {"v": v, "n": n, "r": r})
                if node.stats[side + "_edge_selection"] != hist_before:
                    ctx.fail(f"C15:out-of-range-index-recorded@{cls.__name__}", {})
            if kind != 2 and len(calls) != 1:
                ctx.fail(f"C15:policy-consulted-{len(calls)}-times@{cls.__name__}", {})
        ctx.hit("complete")
        if twin:
            ctx.fail("TWIN:reached-end")
    return fn


def symx_stop():
    from . import symx
    return symx.PathStop
