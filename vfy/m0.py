"""M0 - single-component kernels."""
from __future__ import annotations

from .simenv import make_env, load_repo


def prs_scenario(n=3, twin=False):
    """PriorityReqStore: n waiting get (or put) requests with symbolic priorities issued at symbolic times;
    they must be served in (priority, request time, arrival) order."""
    def fn(ctx):
        load_repo()
        from factorysimpy.base.priority_req_store import PriorityReqStore
        env = make_env()
        store = PriorityReqStore(env, capacity=1)
        side = ctx.choice(2, "side")
        m = 2 + ctx.choice(n - 1, "n_requests")
        pr = [ctx.int("p") for _ in range(m)]
        tm = [ctx.real("t", 0) for _ in range(m)]
        issued = []
        served = []

        def requester(i):
            yield env.timeout(tm[i])
            issued.append(i)
            if side == 0:
                req = store.get(priority=pr[i])
            else:
                req = store.put(("item", i), priority=pr[i])
            yield req
            served.append(i)

        def driver():
            # let every request be issued first, then serve them one at a time
            T = 0
            for t in tm:
                if t > T:
                    T = t
            yield env.timeout(T + 1)
            for k in range(m):
                if side == 0:
                    yield store.put(("x", k))
                else:
                    yield store.get()
                yield env.timeout(1)

        if side == 1:
            store.items.append(("pre", 0))   # a full store: every put request has to wait
        for i in range(m):
            env.process(requester(i))
        env.process(driver())
        env.run()
        ctx.hit("C05:order-checked")
        if len(served) != m:
            ctx.fail("C05:request-never-served@PriorityReqStore", {"served": served})
        pos = {i: k for k, i in enumerate(issued)}
        for a, b in zip(served, served[1:]):
            # a was served before b: key(a) <= key(b), and on equal keys a was issued first
            if pr[a] > pr[b]:
                ctx.fail("C05:served-out-of-order@PriorityReqStore[priority]", {"served": served})
            if pr[a] == pr[b]:
                if tm[a] > tm[b]:
                    ctx.fail("C05:served-out-of-order@PriorityReqStore[time]", {"served": served})
                if tm[a] == tm[b] and pos[a] > pos[b]:
                    ctx.fail("C05:served-out-of-order@PriorityReqStore[fcfs]", {"served": served, "issued": issued})
        ctx.log("served", tuple(served))
        ctx.hit("complete")
        if twin:
            ctx.fail("TWIN:reached-end")
    return fn


def selector_scenario(nmax=4, twin=False):
    """RoundRobin_edge_selector; _get_in/out_edge_index range checks of every node class (answers chosen by the solver, out of range included)"""
    def fn(ctx):
        load_repo()
        from factorysimpy.utils.utils import get_edge_selector
        from factorysimpy.nodes.machine import Machine
        from factorysimpy.nodes.splitter import Splitter
        from factorysimpy.nodes.combiner import Combiner
        env = make_env()
        which = ctx.choice(4, "what")
        n = 1 + ctx.choice(nmax, "n_edges")

        class N:
            pass
        if which == 0:
            node = N()
            side = ["in", "out"][ctx.choice(2, "side")]
            setattr(node, side + "_edges", [object() for _ in range(n)])
            g = get_edge_selector("ROUND_ROBIN", node, env, side.upper())
            seq = [next(g) for _ in range(2 * n + 1)]
            ctx.hit("C15:range-checked")
            if seq != [k % n for k in range(2 * n + 1)]:
                ctx.fail("C15:round-robin-sequence-wrong", {"n": n, "seq": seq})
        else:
            cls = [None, Machine, Splitter, Combiner][which]
            kw = {}
            if cls is Combiner:
                kw["target_quantity_of_each_item"] = [1] * n
            node = cls(env, "X", **kw)
            edges = [object() for _ in range(n)]
            node.in_edges = list(edges)
            node.out_edges = list(edges)
            side = ["in", "out"][ctx.choice(2, "side")]
            if cls is Combiner and side == "in":
                ctx.assume(False)
            v = ctx.choice(n + 2, "answer") - 1      # -1 .. n
            calls = []
            kind = ctx.choice(3, "policy-kind")

            def f():
                calls.append(1)
                return v

            def gen():
                while True:
                    calls.append(1)
                    yield v
            pol = [f, gen(), v][kind]
            setattr(node, side + "_edge_selection", pol)
            hist_before = list(node.stats[side + "_edge_selection"])
            err = None
            try:
                r = getattr(node, f"_get_{side}_edge_index")()
            except symx_stop():
                raise
            except Exception as e:
                err = e
            ctx.hit("C15:range-checked")
            if 0 <= v < n:
                if err is not None:
                    ctx.fail(f"C15:valid-index-rejected@{cls.__name__}", {"v": v, "n": n, "err": repr(err)})
                if r != v:
                    ctx.fail(f"C15:policy-answer-not-obeyed@{cls.__name__}", {"v": v, "r": r})
                if node.stats[side + "_edge_selection"] != hist_before + [v]:
                    ctx.fail(f"C15:answer-not-recorded-once@{cls.__name__}", {})
            else:
                if err is None:
                    ctx.fail(f"C15:out-of-range-index-accepted@{cls.__name__}", {"v": v, "n": n, "r": r})
                if node.stats[side + "_edge_selection"] != hist_before:
                    ctx.fail(f"C15:out-of-range-index-recorded@{cls.__name__}", {})
            if kind != 2 and len(calls) != 1:
                ctx.fail(f"C15:policy-consulted-{len(calls)}-times@{cls.__name__}", {})
        ctx.hit("complete")
        if twin:
            ctx.fail("TWIN:reached-end")
    return fn


def symx_stop():
    from . import symx
    return symx.PathStop


INVALID_KINDS = ["buffer-capacity", "fleet-capacity", "sconv-capacity", "cconv-length", "bufferstore-capacity", "fleetstore-capacity",
                 "buffer-mode", "buffer-delay-negative", "fleet-delay-negative", "fleet-transit-negative", "machine-delay-negative",
                 "source-iat-negative", "nonblocking-source-zero-iat", "machine-without-in-edge", "machine-without-out-edge", "source-without-out-edge",
                 "sink-without-in-edge", "machine-in-index-out-of-range", "machine-out-index-out-of-range", "source-out-index-out-of-range",
                 "splitter-without-out-edge", "combiner-without-in-edge"]


def ctor_scenario(twin=False):
    """invalid configurations must be rejected with an error (at construction or when the model starts to run), never silently simulated"""
    def fn(ctx):
        load_repo()
        import simpy
        from factorysimpy.nodes.source import Source
        from factorysimpy.nodes.machine import Machine
        from factorysimpy.nodes.sink import Sink
        from factorysimpy.nodes.splitter import Splitter
        from factorysimpy.nodes.combiner import Combiner
        from factorysimpy.edges.buffer import Buffer
        from factorysimpy.edges.fleet import Fleet
        from factorysimpy.base.buffer_store import BufferStore
        from factorysimpy.base.fleet_store import FleetStore
        from factorysimpy.edges.slotted_conveyor import ConveyorBelt as SConv
        from factorysimpy.edges.continuous_conveyor import ConveyorBelt as CConv
        from . import symx
        env = make_env()
        kind = INVALID_KINDS[ctx.choice(len(INVALID_KINDS), "invalid-kind")]
        err = None
        routed = {"n": 0}

        def line(src_kw=None, m_kw=None, b1_kw=None, b2=None, connect=(True, True, True, True), sink=True):
            src = Source(env, "S", **dict(dict(inter_arrival_time=1, blocking=True, out_edge_selection=0), **(src_kw or {})))
            m = Machine(env, "M", **dict(dict(processing_delay=1, in_edge_selection=0, out_edge_selection=0), **(m_kw or {})))
            k = Sink(env, "K") if sink else None
            b1 = Buffer(env, "B1", **dict(dict(capacity=2, delay=0), **(b1_kw or {})))
            e2 = b2 if b2 is not None else Buffer(env, "B2", capacity=2)
            return src, m, k, b1, e2
        try:
            if kind in ("buffer-capacity", "fleet-capacity", "sconv-capacity", "bufferstore-capacity", "fleetstore-capacity"):
                c = ctx.int("cap", None, 0)
                if kind == "buffer-capacity":
                    Buffer(env, "B", capacity=c)
                elif kind == "fleet-capacity":
                    Fleet(env, "F", capacity=c)
                elif kind == "sconv-capacity":
                    SConv(env, "C", capacity=c, delay=1, accumulating=1)
                elif kind == "bufferstore-capacity":
                    BufferStore(env, capacity=c)
                else:
                    FleetStore(env, capacity=c)
            elif kind == "cconv-length":
                CConv(env, "C", conveyor_length=[0, -1, -2.5][ctx.choice(3, "len")], speed=1, item_length=1, accumulating=1)
            elif kind == "buffer-mode":
                Buffer(env, "B", capacity=2, mode=["fifo", "LILO", "", "RANDOM", None][ctx.choice(5, "mode")])
            else:
                neg = ctx.real("neg", None, 0)
                ctx.assume(neg < 0)
                if kind == "buffer-delay-negative":
                    src, m, k, b1, b2 = line(b1_kw=dict(delay=neg))
                    b1.connect(src, m); b2.connect(m, k)
                elif kind == "fleet-delay-negative":
                    f = Fleet(env, "F", capacity=2, delay=neg, transit_delay=1)
                    src, m, k, b1, b2 = line()
                    b1.connect(src, m); f.connect(m, k)
                elif kind == "fleet-transit-negative":
                    f = Fleet(env, "F", capacity=2, delay=1, transit_delay=neg)
                    src, m, k, b1, b2 = line()
                    b1.connect(src, m); f.connect(m, k)
                elif kind == "machine-delay-negative":
                    src, m, k, b1, b2 = line(m_kw=dict(processing_delay=neg))
                    b1.connect(src, m); b2.connect(m, k)
                elif kind == "source-iat-negative":
                    src, m, k, b1, b2 = line(src_kw=dict(inter_arrival_time=neg))
                    b1.connect(src, m); b2.connect(m, k)
                elif kind == "nonblocking-source-zero-iat":
                    # inside a complete, otherwise valid line: the zero inter-arrival time must be the only reason for a rejection
                    src, m, k, b1, b2 = line(src_kw=dict(inter_arrival_time=[0, 0.0][ctx.choice(2, "zero")], blocking=False))
                    b1.connect(src, m); b2.connect(m, k)
                elif kind == "machine-without-in-edge":
                    src, m, k, b1, b2 = line()
                    b2.connect(m, k)
                elif kind == "machine-without-out-edge":
                    src, m, k, b1, b2 = line()
                    b1.connect(src, m)
                elif kind == "source-without-out-edge":
                    Source(env, "S", inter_arrival_time=1, blocking=True)
                elif kind == "sink-without-in-edge":
                    Sink(env, "K")
                elif kind == "splitter-without-out-edge":
                    src, m, k, b1, b2 = line()
                    s = Splitter(env, "X", processing_delay=1)
                    b1.connect(src, s)
                elif kind == "combiner-without-in-edge":
                    src, m, k, b1, b2 = line()
                    c = Combiner(env, "X", target_quantity_of_each_item=[1], processing_delay=1)
                    b2.connect(c, k)
                else:
                    n_edges = 1 + ctx.choice(2, "n_edges")
                    bad = [-1, n_edges, n_edges + 1][ctx.choice(3, "bad-index")]
                    if kind == "machine-in-index-out-of-range":
                        m = Machine(env, "M", processing_delay=1, in_edge_selection=bad, out_edge_selection=0)
                        k = Sink(env, "K")
                        for i in range(n_edges):
                            s = Source(env, f"S{i}", inter_arrival_time=1, blocking=True, out_edge_selection=0)
                            Buffer(env, f"B{i}", capacity=2).connect(s, m)
                        Buffer(env, "O", capacity=2).connect(m, k)
                    elif kind == "machine-out-index-out-of-range":
                        m = Machine(env, "M", processing_delay=1, in_edge_selection=0, out_edge_selection=bad)
                        s = Source(env, "S", inter_arrival_time=1, blocking=True, out_edge_selection=0)
                        Buffer(env, "I", capacity=2).connect(s, m)
                        for i in range(n_edges):
                            Buffer(env, f"O{i}", capacity=2).connect(m, Sink(env, f"K{i}"))
                    else:
                        s = Source(env, "S", inter_arrival_time=1, blocking=True, out_edge_selection=bad)
                        m = Machine(env, "M", processing_delay=1)
                        Buffer(env, "I", capacity=2).connect(s, m)
                        Buffer(env, "O", capacity=2).connect(m, Sink(env, "K"))
            # the model was accepted at construction: it must fail when it starts to run
            stop = env.event()
            stop._ok = True
            stop._value = None
            env.schedule(stop, 0, 6)
            n = 0
            while env._queue and env._queue[0][3] is not stop and n < 3000:
                env.step()
                n += 1
        except symx.PathStop:
            raise
        except Exception as e:
            err = e
        ctx.hit("C20:invalid-config-checked")
        ctx.hit("C20:invalid:" + kind)
        if err is None:
            ctx.fail(f"C20:invalid-configuration-silently-simulated[{kind}]", {})
        ctx.hit("complete")
        if twin:
            ctx.fail("TWIN:reached-end")
    return fn
