"""M2 scenarios for fleets (C14) and conveyors (C12, C13): the edge is driven by harness processes."""
from __future__ import annotations

from . import symx
from .m2 import Factory, BIG
from .simenv import load_repo


class Flow:
    """minimal flow item"""

    def __init__(self, id, length=1):
        self.id = id
        self.length = length

    def __repr__(self):
        return f"Flow({self.id})"


class EqFlow(Flow):
    """value-like flow items: two parts of the same type compare equal although they are different objects"""

    def __eq__(self, other):
        return isinstance(other, EqFlow)

    def __hash__(self):
        return 7


class Stub:
    """stand-in node so that initial_test() of the edges passes"""

    def __init__(self, id):
        self.id = id


def _watch_ready(F, e, R):
    """step hook: note the first instant at which an item shows up in ready_items"""
    def hook(F):
        for it in F.store_of(e).ready_items:
            if id(it) not in R:
                R[id(it)] = F.env.now
    return hook


# ---------------------------------------------------------------------------------------------
# C14


def fleet(props=("C14",), cap=2, n_loads=3, sym=("gap", "delay", "transit"), consumer="eager", zero=False, twin=False, delay_lo=1, equal_items=False):
    def fn(ctx):
        load_repo()
        from factorysimpy.edges.fleet import Fleet
        F = Factory(ctx, props)
        env = F.env
        lo = 0 if zero else delay_lo
        delay = ctx.real("delay", lo, 4) if "delay" in sym else 2
        transit = ctx.real("transit", 0, 2) if "transit" in sym else 1
        gaps = [ctx.real("gap", 0, 3) for _ in range(n_loads)] if "gap" in sym else [1] * n_loads
        svc = ctx.real("svc", 0, 3) if consumer in ("slow", "juggle") else 0
        e = Fleet(env, "FL", capacity=cap, delay=delay, transit_delay=transit)
        e.src_node = Stub("L")
        e.dest_node = Stub("U")
        F.add_edge(e)
        items = [(EqFlow if equal_items else Flow)(f"x{k}") for k in range(n_loads)]
        t_put = {}
        R = {}
        got = []
        F.step_hooks.append(_watch_ready(F, e, R))

        def loader():
            for k in range(n_loads):
                yield env.timeout(gaps[k])
                tok = e.reserve_put()
                yield tok
                e.put(tok, items[k])
                t_put[id(items[k])] = env.now

        def unloader():
            if consumer == "juggle":
                # a consumer that shows up late, holds two granted retrievals, gives the older one back (what a FIRST_AVAILABLE node does with the
                # edges it did not choose), asks again and then takes both items: oldest first
                yield env.timeout(svc)
                r1 = e.reserve_get()
                yield r1
                r2 = e.reserve_get()
                if r2.triggered:
                    ctx.hit("juggled")
                    try:
                        r1.resourcename.reserve_get_cancel(r1)
                        r3 = e.reserve_get()
                        if not r3.triggered:
                            F.soft("C14:released-item-not-offered-again", {})
                        yield r3
                        it = e.get(r3)
                        got.append((it, env.now))
                        # a third retrieval is requested while the second is still held
                        r4 = e.reserve_get()
                        it = e.get(r2)
                        got.append((it, env.now))
                        if r4.triggered:
                            it = e.get(r4)
                            got.append((it, env.now))
                        else:
                            r4.resourcename.reserve_get_cancel(r4)
                    except symx.PathStop:
                        raise
                    except Exception as ex:
                        F.soft("C14:get-with-a-granted-reservation-raised-%s" % type(ex).__name__, {"msg": str(ex)[:100]})
                        return
                else:
                    # only one item is offered: withdraw the waiting second request and carry on as an eager consumer
                    r2.resourcename.reserve_get_cancel(r2)
                    it = e.get(r1)
                    got.append((it, env.now))
            while True:
                tok = e.reserve_get()
                yield tok
                it = e.get(tok)
                got.append((it, env.now))
                if consumer == "slow":
                    yield env.timeout(svc)

        env.process(loader())
        env.process(unloader())
        # run until everything loaded has been delivered, but at most a few timer periods after the last load
        t_end = 0
        for g in gaps:
            t_end = t_end + g
        t_end = t_end + 3 * 4 + 2 * 2 + 3 * n_loads + 1
        F.run(until=t_end, per_instant=600)
        # ---- oracle -------------------------------------------------------------------------
        ctx.hit("C14:checked")
        loaded = [it for it in items if id(it) in t_put]
        for it in loaded:
            if id(it) not in R:
                F.soft("C14:loaded-item-never-delivered", {"item": it.id})
        deliv = [it for it in loaded if id(it) in R]
        two = 2 * transit
        for it in deliv:
            w = R[id(it)] - t_put[id(it)]
            ctx.hit("C14:item-checked")
            if ctx.lt(w, two):
                F.soft("C14:item-available-less-than-a-round-trip-after-loading", {"item": it.id})
            if ctx.lt(delay + two, w):
                F.soft("C14:item-waited-longer-than-delay-plus-round-trip", {"item": it.id})
        # batches: group by availability instant
        for it in deliv:
            Ri = R[id(it)]
            D = Ri - two
            for other in loaded:
                if other is it:
                    continue
                tp = t_put[id(other)]
                Ro = R.get(id(other))
                if ctx.lt(tp, D):
                    # waiting at the departure of this trip: must not be delivered later than this trip
                    if Ro is None or ctx.lt(Ri, Ro):
                        F.soft("C14:item-waiting-at-departure-was-left-behind", {"item": other.id, "trip_of": it.id})
                if Ro is not None and ctx.eq(Ro, Ri) and ctx.lt(D, tp):
                    F.soft("C14:item-loaded-after-departure-joined-the-trip", {"item": other.id, "trip_of": it.id})
        # loading order inside the store after delivery / towards the consumer
        order = [x for x, _ in got]
        pos = {id(x): k for k, x in enumerate(order)}
        for a in deliv:
            for b in deliv:
                if a is not b and id(a) in pos and id(b) in pos and ctx.lt(t_put[id(a)], t_put[id(b)]) and pos[id(a)] > pos[id(b)]:
                    if ctx.le(R[id(a)], R[id(b)]):
                        F.soft("C14:items-not-handed-over-in-loading-order", {"first": b.id, "second": a.id})
        # capacity-triggered departure: when the k-th load fills the fleet (cap items waiting to be moved) it leaves at once
        waiting = []
        for k, it in enumerate(loaded):
            tp = t_put[id(it)]
            # items loaded earlier and not yet departed at tp (their availability is later than tp + 0)
            still = [o for o in loaded[:k] if id(o) in R and ctx.lt(tp + two, R[id(o)] + 0) or (id(o) not in R)]
            n_wait = 1 + sum(1 for o in loaded[:k] if (id(o) not in R) or ctx.lt(tp, R[id(o)] - two) or ctx.eq(tp, R[id(o)] - two))
            n_here = 1 + sum(1 for o in loaded[:k] if (id(o) not in R) or ctx.lt(tp, R[id(o)]))
            if n_wait >= cap and n_here <= cap and id(it) in R:
                ctx.hit("C14:capacity-departure-checked")
                if not ctx.eq(R[id(it)], tp + two):
                    F.soft("C14:full-fleet-did-not-depart-at-once", {"item": it.id})
        ctx.log("R", tuple(R.get(id(it)) for it in items), "put", tuple(t_put.get(id(it)) for it in items))
        ctx.hit("complete")
        if twin:
            ctx.fail("TWIN:reached-end")
    return fn


# ---------------------------------------------------------------------------------------------
# C12 / C13: conveyors


def conveyor(props=("C12", "C13"), kind="cconv", acc=1, cap=3, n_items=3, consumer="eager", sym=("gap",), speed=1, item_len=1, slot=1,
             length=None, twin=False, gap_hi=4, svc_hi=6, n_prod=1, bystander=False, feeder=False):
    """producer: reserve_put/put with symbolic gaps; consumer: reserve_get, get, then busy for a symbolic service time"""
    def fn(ctx):
        load_repo()
        F = Factory(ctx, props)
        env = F.env
        if kind == "sconv":
            from factorysimpy.edges.slotted_conveyor import ConveyorBelt
            e = ConveyorBelt(env, "CV", capacity=cap, delay=slot, accumulating=acc)
            travel = cap * slot
            spacing = slot
            tag = f"slotted[acc={acc}]"
        else:
            from factorysimpy.edges.continuous_conveyor import ConveyorBelt
            L = length if length is not None else cap * item_len
            e = ConveyorBelt(env, "CV", conveyor_length=L, speed=speed, item_length=item_len, accumulating=acc)
            travel = L / speed
            spacing = item_len / speed
            tag = f"continuous[acc={acc}]" if (L / item_len) == int(L / item_len) else f"continuous-nonmultiple-length[acc={acc}]"
        e.src_node = Stub("P")
        e.dest_node = Stub("Q")
        F.add_edge(e)
        capacity = e.capacity
        gaps = [ctx.real("gap", 0, gap_hi) for _ in range(n_items)] if "gap" in sym else [1] * n_items
        if consumer in ("slow", "hold"):
            svc = [ctx.real("svc", 0, svc_hi) for _ in range(n_items)]
        elif consumer in ("late", "juggle"):
            # the consumer shows up only after a symbolic delay, then takes everything eagerly
            svc = [ctx.real("svc", 0, svc_hi)] + [0] * n_items
        else:
            svc = [0] * n_items
        items = [Flow(f"y{k}", item_len) for k in range(n_items)]
        E, R, G = {}, {}, {}
        W = {}                   # item k was put while a head item was already waiting at the exit
        order_out = []
        F.step_hooks.append(_watch_ready(F, e, R))
        pending_put = {"since": None}

        entry_seq = []
        got_seq = []

        ef = None
        if feeder:
            # the items reach the belt under observation over another, faster conveyor of the same kind (a transfer process moves them across):
            # whatever an item carries from its first belt (entry stamps, stall bookkeeping) must not influence the second one
            if kind == "sconv":
                ef = ConveyorBelt(env, "FEED", capacity=2, delay=slot / 2, accumulating=1)
            else:
                ef = ConveyorBelt(env, "FEED", conveyor_length=2 * item_len, speed=2 * speed, item_length=item_len, accumulating=1)
            ef.src_node = Stub("P0")
            ef.dest_node = Stub("X")

        def feeder_producer():
            for k in range(n_items):
                yield env.timeout(gaps[k])
                tok = ef.reserve_put()
                yield tok
                ef.put(tok, items[k])

        def transfer():
            while True:
                tg = ef.reserve_get()
                yield tg
                it = ef.get(tg)
                k = int(it.id[1:])
                tok = e.reserve_put()
                pending_put["since"] = env.now
                yield tok
                pending_put["since"] = None
                W[k] = bool(F.store_of(e).ready_items)
                e.put(tok, it)
                E[k] = env.now
                entry_seq.append(k)

        def producer(which=0):
            if feeder:
                return
            for k in range(which, n_items, n_prod):
                yield env.timeout(gaps[k])
                tok = e.reserve_put()
                pending_put["since"] = env.now
                yield tok
                pending_put["since"] = None
                W[k] = bool(F.store_of(e).ready_items)
                e.put(tok, items[k])
                E[k] = env.now
                entry_seq.append(k)

        def take(tok):
            it = e.get(tok)
            G[int(it.id[1:])] = env.now
            order_out.append(int(it.id[1:]))
            got_seq.append(int(it.id[1:]))

        def consumer_p():
            if consumer in ("late", "juggle"):
                yield env.timeout(svc[0])
            if consumer == "juggle":
                # holds two granted retrievals, gives the older one back (as a FIRST_AVAILABLE node does with the edges it did not choose),
                # asks again and then takes both items, oldest first
                r1 = e.reserve_get()
                yield r1
                r2 = e.reserve_get()
                if r2.triggered:
                    ctx.hit("juggled")
                    try:
                        r1.resourcename.reserve_get_cancel(r1)
                        r3 = e.reserve_get()
                        if not r3.triggered:
                            F.soft(f"C12:released-item-not-offered-again@{tag}", {})
                        yield r3
                        take(r3)
                        # a third retrieval is requested while the second is still held
                        r4 = e.reserve_get()
                        take(r2)
                        if r4.triggered:
                            take(r4)
                        else:
                            r4.resourcename.reserve_get_cancel(r4)
                    except symx.PathStop:
                        raise
                    except Exception as ex:
                        F.soft(f"C12:get-with-a-granted-reservation-raised-{type(ex).__name__}@{tag}", {"msg": str(ex)[:100]})
                        return
                else:
                    # only one item is offered: withdraw the waiting second request and carry on as an eager consumer
                    r2.resourcename.reserve_get_cancel(r2)
                    take(r1)
            k = 0
            while True:
                tok = e.reserve_get()
                yield tok
                if consumer == "hold" and k < len(svc):
                    # keep the granted reservation for a while before actually taking the item
                    yield env.timeout(svc[k])
                it = e.get(tok)
                G[int(it.id[1:])] = env.now
                order_out.append(int(it.id[1:]))
                got_seq.append(int(it.id[1:]))
                if consumer == "slow" and k < len(svc):
                    yield env.timeout(svc[k])
                k += 1

        if bystander:
            # a second, independent belt in the same simulation: one item enters at t=0 and waits at the exit (belt stalled) until its consumer takes
            # it at a fixed instant (belt resumes / goes idle).  What happens on it must not influence the belt under observation.
            if kind == "sconv":
                e2 = ConveyorBelt(env, "CV2", capacity=2, delay=slot, accumulating=acc)
            else:
                e2 = ConveyorBelt(env, "CV2", conveyor_length=2 * item_len, speed=speed, item_length=item_len, accumulating=acc)
            e2.src_node = Stub("P2")
            e2.dest_node = Stub("Q2")

            def producer2():
                tok = e2.reserve_put()
                yield tok
                e2.put(tok, Flow("z0", item_len))

            def consumer2():
                yield env.timeout(travel + 2.5 * spacing)
                tok = e2.reserve_get()
                yield tok
                e2.get(tok)
            env.process(producer2())
            env.process(consumer2())

        if "C04" in F.props:
            from .m2s import has_room_for, conv_watch
            F.conv_stalled_since_put = {}
            F.step_hooks.append(conv_watch)

            def c04_instant(F):
                # at the end of an instant nobody may be left waiting for something the belt can give (ledger view, conservative admission rules)
                ctx.hit("C04:belt-checked")
                if any(not t.granted for t in F.standing(e, "put")) and has_room_for(F, e, None):
                    F.soft(f"C04:space-request-pending-although-the-belt-can-take-an-item@{tag}", {"now": F.env.now})
                ready = F.store_of(e).ready_items
                n_granted = sum(1 for t in F.standing(e, "get") if t.granted)
                if any(not t.granted for t in F.standing(e, "get")) and len(ready) > n_granted:
                    F.soft(f"C04:retrieval-pending-although-an-item-waits-at-the-exit@{tag}", {"now": F.env.now})
            F.instant_hooks.append(c04_instant)

        def cap_monitor(F):
            if F.occupancy(e) > capacity:
                F.soft(f"C12:more-than-capacity-items-on-the-belt@{tag}", {"occ": F.occupancy(e)})
        F.step_hooks.append(cap_monitor)
        if feeder:
            env.process(feeder_producer())
            env.process(transfer())
        else:
            for w in range(n_prod):
                env.process(producer(w))
        env.process(consumer_p())
        t_end = 0
        for g in gaps:
            t_end = t_end + g
        for s in svc:
            t_end = t_end + s
        t_end = t_end + (n_items + 2) * (travel + spacing) + 2
        F.run(until=t_end, per_instant=800, max_steps=12000)
        ctx.hit("C12:checked")
        tol = 2e-5
        # re-index everything by entry rank (with two producers the item numbers are not in entry order)
        rank = {k: pos for pos, k in enumerate(entry_seq)}
        E = {rank[k]: v for k, v in E.items()}
        W = {rank[k]: v for k, v in W.items() if k in rank}
        G = {rank[k]: v for k, v in G.items() if k in rank}
        order_out = [rank[k] for k in order_out if k in rank]
        items = [items[k] for k in entry_seq] + [it for k, it in enumerate(items) if k not in rank]
        n_in = len(E)
        # context flags for signatures: entries squeezed together inside the 1e-5 admission tolerance; consumer holding a granted reservation
        def _near_grid(x):
            # within a few admission tolerances (2e-4) of - but not exactly on - a multiple of the entry spacing
            for mlt in range(1, 2 * capacity + 3):
                d = x - mlt * spacing
                if ctx.lt(d, 0):
                    d = -d
                if ctx.lt(0, d) and ctx.le(d, 2e-4):
                    return True
            return False
        base_tag = tag[:-1] + (",held-reservation" if consumer == "hold" else "")
        _sq = {}

        def tolerance_tag():
            # evaluated only when a finding is about to be reported (the comparisons would otherwise fork every path)
            if "v" not in _sq:
                _sq["v"] = any(_near_grid(E[k] - E[j]) for k in range(n_in) for j in range(k))
            return base_tag + (",entries-within-tolerance-of-the-slot-grid" if _sq["v"] else "") + "]"
        tag = base_tag + "]"
        if n_in < n_items:
            # the producer is still waiting for admission at the end: the belt must be full or blocked
            F.soft(f"C13:item-never-admitted@{tag}", {"admitted": n_in})
        # ---- C12 ---------------------------------------------------------------------------------
        if order_out != sorted(order_out):
            F.soft(f"C12:items-left-in-a-different-order-than-they-entered@{tag}", {"out": order_out})
        for k in range(1, n_in):
            if ctx.lt(E[k] - E[k - 1], spacing - tol):
                F.soft(f"C12:successive-entries-closer-than-one-item-length-of-travel@{tag}", {"k": k})
        for k in range(n_in):
            Rk = R.get(id(items[k]))
            if Rk is None:
                F.soft(f"C12:item-never-reached-the-exit@{tag}", {"k": k})
                continue
            ctx.hit("C12:travel-checked")
            if ctx.lt(Rk - E[k], travel - tol):
                F.soft(f"C12:item-offered-before-the-full-travel-time@{tag}", {"k": k})
            if consumer == "eager":
                if ctx.lt(travel + tol, Rk - E[k]):
                    F.soft(f"C12:travel-time-longer-than-length-over-speed-with-an-eager-consumer@{tag}", {"k": k})
                if k in G and not ctx.eq(G[k], Rk):
                    F.soft(f"C12:eager-consumer-did-not-get-the-item-when-offered@{tag}", {"k": k})
        # ---- C13 ---------------------------------------------------------------------------------
        if consumer != "eager":
            ctx.hit("C13:checked")
            stalls = []          # (start, end) intervals during which the head item waited at the exit
            for k in range(n_in):
                if R.get(id(items[k])) is None:
                    F.soft(f"C13:item-stuck-on-the-belt@{tag}", {"k": k})
            if order_out != sorted(order_out):
                F.soft(f"C13:items-overtook-each-other@{tag}", {"out": order_out})
            for k in range(n_in):
                Rk = R.get(id(items[k]))
                if Rk is None:
                    continue
                # head k waits from the moment it is at the exit AND is the head, until it is taken
                start = Rk
                if k > 0 and (k - 1) in G and ctx.lt(start, G[k - 1]):
                    start = G[k - 1]
                end = G.get(k, t_end)
                if ctx.lt(start, end):
                    stalls.append((start, end, k))
                    ctx.hit("C13:stall-seen")
            if not acc:
                for (a, b, h) in stalls:
                    for k in range(n_in):
                        if ctx.lt(a, E[k]) and ctx.lt(E[k], b):
                            # was something still travelling (entered, not yet at the exit) at that moment?
                            moving = any(j != k and ctx.le(E[j], E[k]) and (R.get(id(items[j])) is None or ctx.lt(E[k], R[id(items[j])])) for j in range(n_in))
                            F.soft(f"C13:item-admitted-while-the-belt-was-stopped{'-with-items-frozen-on-it' if moving else ''}@{tag}", {"k": k, "head": h})
                for k in range(n_in):
                    Rk = R.get(id(items[k]))
                    if Rk is None:
                        continue
                    stopped = 0
                    entered_during_a_stall = False
                    for (a, b, h) in stalls:
                        lo = a if ctx.le(E[k], a) else E[k]
                        hi = b if ctx.le(b, Rk) else Rk
                        if ctx.lt(lo, hi):
                            stopped = stopped + (hi - lo)
                            if ctx.lt(a, E[k]) or (W.get(k) and ctx.eq(a, E[k])):
                                # (in the very instant a stall begins the order of the two events decides: the item was put after the head had arrived)
                                entered_during_a_stall = True
                    ctx.hit("C13:ready-time-checked")
                    if ctx.lt(Rk, E[k] + travel + stopped - tol):
                        # an item that was already on the belt (or entered in the very instant the head arrived) when every stall it met began is a
                        # different situation from an item admitted in the middle of a stall
                        what = "item-advanced-while-the-belt-was-stopped" if entered_during_a_stall else "item-already-on-the-belt-kept-moving-while-the-belt-was-stopped"
                        F.soft(f"C13:{what}@{tag}", {"k": k})
                    if ctx.lt(E[k] + travel + stopped + tol, Rk):
                        F.soft(f"C13:item-did-not-resume-from-where-it-stopped@{tag}", {"k": k})
            else:
                for k in range(n_in):
                    Rk = R.get(id(items[k]))
                    if Rk is None:
                        continue
                    exp = E[k] + travel
                    if k > 0 and (k - 1) in G and ctx.lt(exp, G[k - 1] + spacing):
                        exp = G[k - 1] + spacing
                    ctx.hit("C13:ready-time-checked")
                    if ctx.lt(Rk, exp - tol):
                        F.soft(f"C13:item-overlapped-or-overtook-the-item-ahead@{tag}", {"k": k})
                    if ctx.lt(exp + tol, Rk):
                        F.soft(f"C13:item-did-not-close-up-to-the-item-ahead@{tag}", {"k": k})
        ctx.log("E", tuple(E.get(k) for k in range(n_items)), "R", tuple(R.get(id(it)) for it in items), "G", tuple(G.get(k) for k in range(n_items)))
        ctx.hit("complete")
        if twin:
            ctx.fail("TWIN:reached-end")
    return fn
