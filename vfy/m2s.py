"""M2 scenarios: topologies, symbolic parameters, oracles per property."""
from __future__ import annotations

from . import symx
from .m2 import Factory, BIG, mon_capacity, obs_conservation, node_holdings, reconcile_discards


def _imports():
    from factorysimpy.nodes.source import Source
    from factorysimpy.nodes.machine import Machine
    from factorysimpy.nodes.sink import Sink
    from factorysimpy.edges.buffer import Buffer
    from factorysimpy.edges.fleet import Fleet
    return Source, Machine, Sink, Buffer, Fleet


# ---------------------------------------------------------------------------------------------
# oracles on machines (C08 / C09 / C10 parts)


def bind_delays(F):
    """attach the k-th processing-delay draw of a node to its k-th pull"""
    per_node = {}
    for (owner, t, v, k) in F.delay_calls:
        per_node.setdefault(owner, []).append((t, v))
    for n in F.nodes:
        if n.__class__.__name__ != "Machine":
            continue
        pulls = [p for r in F.items.values() for p in r.pulls if p["node"] is n]
        pulls.sort(key=lambda p: p["_seq"])
        calls = per_node.get(n.id, [])
        const = isinstance(n.processing_delay, (int, float))
        for i, p in enumerate(pulls):
            if const:
                p["d"] = n.processing_delay
            elif i < len(calls) and p["d"] is None:
                p["d"] = calls[i][1]
                p["t_draw"] = calls[i][0]
        if const:
            per_node[n.id] = [None] * len(pulls)
    return per_node


def c08_step(F):
    """after every kernel event: held <= work_capacity; one delay draw per pulled item at the pull instant"""
    for n in F.nodes:
        if n.__class__.__name__ != "Machine":
            continue
        held = [r for r in F.items.values() if r.loc == ("node", n)]
        real = node_holdings(F, n)
        held = [r for r in held if any(r.obj is h for h in real)]
        if len(held) > n.work_capacity:
            F.soft("C08:machine-holds-more-than-work_capacity", {"held": len(held), "w": n.work_capacity})


def c08_instant(F):
    """at the end of every instant"""
    ctx = F.ctx
    calls = bind_delays(F)
    now = F.env.now
    for n in F.nodes:
        if n.__class__.__name__ != "Machine":
            continue
        pulls = sorted([p for r in F.items.values() for p in r.pulls if p["node"] is n], key=lambda p: p["_seq"])
        ncalls = len(calls.get(n.id, []))
        if ncalls != len(pulls):
            F.soft("C08:processing-delay-drawn-%s-than-once-per-item" % ("more" if ncalls > len(pulls) else "less"), {"draws": ncalls, "pulls": len(pulls)})
        for r in F.items.values():
            for p in r.pulls:
                if p["node"] is not n or p["d"] is None:
                    continue
                if "t_draw" in p and not ctx.eq(p["t_draw"], p["t"]):
                    F.soft("C08:delay-not-drawn-at-the-pull-instant", {"item": repr(r.obj)})
                if p["t_out"] is not None:
                    if p.get("checked"):
                        continue
                    p["checked"] = True
                    ctx.hit("C08:residence-checked")
                    if ctx.lt(p["t_out"], p["t"] + p["d"]):
                        F.soft("C08:item-left-before-its-processing-delay-elapsed", {"item": repr(r.obj), "out": p["out"]})
                elif r.loc == ("node", n) and ctx.le(p["t"] + p["d"], now):
                    # finished but still held at the end of this instant: every permitted out-edge must be unable to take it
                    ctx.hit("C08:finished-item-held")
                    edges = permitted_out_edges(F, n)
                    if not n.blocking:
                        F.soft("C09:non-blocking-node-holds-a-finished-item-across-an-instant", {"node": n.id, "item": repr(r.obj)})
                    for e in edges:
                        if has_room_for(F, e, n):
                            F.soft("C08:finished-item-held-although-an-out-edge-has-room", {"item": repr(r.obj), "edge": e.id})
                            break


def permitted_out_edges(F, n):
    if n.out_edge_selection == "FIRST_AVAILABLE":
        return list(n.out_edges)
    # otherwise the node has committed to the edge on which it holds a space token
    es = [t.edge for t in F.standing(kind="put", node=n)]
    return es


def has_room_for(F, e, n):
    """room on e counting every granted space token except the node's own ones (conveyors: plus the documented admission rules)"""
    g = sum(1 for t in F.standing(e, "put") if t.granted and t.node is not n)
    if not (F.occupancy(e) + g < e.capacity):
        return False
    if e.__class__.__name__ == "ConveyorBelt":
        if g:
            return False          # one item enters at a time
        spacing = (e.length / e.speed) if hasattr(e, "speed") else e.delay
        last = None
        for ev in reversed(F.events):
            if ev[0] == "put" and ev[2] is e:
                last = ev[1]
                break
        if last is not None and not (F.env.now - last >= spacing + 2e-5):
            return False          # the previous item has not cleared the entry yet
        if last is not None and getattr(F, "conv_stalled_since_put", {}).get(e.id):
            return False          # a head item waited at the exit since the last entry: the last item may have been held up inside the entry zone
        if not e.accumulating and F.store_of(e).ready_items:
            return False          # a non-accumulating belt is stopped while its head waits
        ready = F.store_of(e).ready_items
        for r in F.items.values():
            if r.loc == ("edge", e) and not any(r.obj is x for x in ready):
                t_in = next((h[1] for h in reversed(r.hist) if h[0] == "put" and h[2] is e), None)
                if t_in is not None and F.env.now - t_in >= e.capacity * spacing - 2e-5:
                    return False  # an item reaches the exit in this very instant: the belt deliberately admits nothing before it has been moved to the exit
    return True


def on_put_record_out(F):
    """step hook: note the instant a pulled item was pushed downstream"""
    for ev in F.events[getattr(F, "_ev_seen", 0):]:
        if ev[0] == "put" and ev[4] is not None and ev[4].pulls:
            p = ev[4].pulls[-1]
            if p["node"] is ev[3] and p["t_out"] is None:
                p["t_out"] = ev[1]
                p["out"] = ev[2].id
    F._ev_seen = len(F.events)


# ---------------------------------------------------------------------------------------------
# line:  Source -> E1 -> Machine(w) -> E2 -> Sink


def line(props=("C03", "C08"), n_items=3, w=1, blocking=True, src_blocking=True, cap1=2, cap2=1, sym=("iat", "pd"), delay_kind="callable",
         in_sel="FIRST_AVAILABLE", out_sel="FIRST_AVAILABLE", bufdelay=0, per_item_pd=False, until=None, twin=False, setup=0,
         mode1="FIFO", sink_slow=False):
    def fn(ctx):
        Source, Machine, Sink, Buffer, Fleet = _imports()
        F = Factory(ctx, props)
        env = F.env
        F.sel_answers = {}
        F.sel_moves = {}
        F.routing = {}
        F.last_out_choice = {}
        F.src_gaps = {}
        F.discards = lambda n: n.stats.get("num_item_discarded", 0)
        iat = ctx.real("iat", 0.5, 3) if "iat" in sym else 1
        if per_item_pd:
            pds = [ctx.real("pd", 0, 4) for _ in range(n_items)]
        else:
            pd = ctx.real("pd", 0, 4) if "pd" in sym else 1
            pds = [pd] * (n_items + 2)
        bd = ctx.real("bd", 0, 2) if "bd" in sym else bufdelay
        gaps = [iat] * n_items
        src = F.add_node(Source(env, "SRC", inter_arrival_time=F.delay_source("SRC", gaps, "generator"), blocking=src_blocking,
                                out_edge_selection=0))
        m = F.add_node(Machine(env, "M", work_capacity=w, processing_delay=F.delay_source("M", pds, delay_kind, after=1),
                               blocking=blocking, in_edge_selection=in_sel, out_edge_selection=out_sel, node_setup_time=setup))
        snk = F.add_node(Sink(env, "SNK"))
        b1 = F.add_edge(Buffer(env, "B1", capacity=cap1, delay=bd, mode=mode1))
        b2 = F.add_edge(Buffer(env, "B2", capacity=cap2, delay=0))
        b1.connect(src, m)
        b2.connect(m, snk)
        F.edge_delays = {"B1": bd, "B2": 0}
        install(F)
        F.run(until=until)
        finish(F, until)
        ctx.log("recv", snk.stats["num_item_received"], "disc", m.stats["num_item_discarded"], src.stats["num_item_discarded"])
        ctx.hit("complete")
        if twin:
            ctx.fail("TWIN:reached-end")
    return fn


def conv_watch(F):
    """step hook: per conveyor, did a head item wait at the exit at any moment since the last item entered?"""
    seen = getattr(F, "_cw_seen", 0)
    for ev in F.events[seen:]:
        if ev[0] == "put" and ev[2].__class__.__name__ == "ConveyorBelt":
            F.conv_stalled_since_put[ev[2].id] = False
    F._cw_seen = len(F.events)
    for e in F.edges:
        if e.__class__.__name__ == "ConveyorBelt" and F.store_of(e).ready_items:
            F.conv_stalled_since_put[e.id] = True


def source_stamp_watch(F):
    """step hook: remember the time stamps an item carries at the moment its source puts it on an edge (the next node overwrites them)"""
    seen = getattr(F, "_ss_seen", 0)
    for ev in F.events[seen:]:
        if ev[0] == "put" and ev[3] is not None and ev[3].__class__.__name__ == "Source" and ev[4] is not None:
            o = ev[4].obj
            F.source_stamps.setdefault(ev[3].id, []).append((getattr(o, "id", "?"), getattr(o, "timestamp_creation", None), getattr(o, "timestamp_node_exit", None)))
    F._ss_seen = len(F.events)


def install(F):
    if "C18" in F.props:
        F.source_stamps = {}
        F.step_hooks.append(source_stamp_watch)
    if any(e.__class__.__name__ == "ConveyorBelt" for e in F.edges):
        F.conv_stalled_since_put = {}
        F.step_hooks.append(conv_watch)
    F.step_hooks.append(on_put_record_out)
    F.step_hooks.append(lambda F: reconcile_discards(F))
    if "C01" in F.props or "C03" in F.props:
        F.step_hooks.append(mon_capacity)
    if "C08" in F.props or "C09" in F.props:
        F.step_hooks.append(c08_step)
        F.instant_hooks.append(c08_instant)
    if "C03" in F.props:
        F.instant_hooks.append(obs_conservation)
    if "C10" in F.props:
        F.instant_hooks.append(c10_instant)
    if "C09" in F.props:
        F.step_hooks.append(c09_step)
        F.instant_hooks.append(c09_instant)
    if "C15" in F.props:
        F.step_hooks.append(c15_step)
        F.instant_hooks.append(c15_instant)


def _fair(F):
    for n in F.nodes:
        if n.__class__.__name__ in ("Machine", "Splitter") and len(n.in_edges) > 1 and n.in_edge_selection != "FIRST_AVAILABLE":
            return False
    return True


def finish(F, until):
    if until is not None and "C17" in F.props:
        c17_final(F, until)
    if until is not None and "C18" in F.props:
        c18_final(F, until)
    if "C15" in F.props:
        c15_final(F)
    if "C10" in F.props and until is None and _fair(F):
        c10_quiescence(F)
    if "C03" in F.props and until is not None and _fair(F):
        # runs with fleets are cut at a time bound (the fleet's periodic timer never lets the event queue drain): an item may still be inside a
        # fleet at the end only if it was loaded less than one waiting period plus one round trip ago - otherwise it is stuck there
        now = F.env.now
        for e in F.edges:
            if e.__class__.__name__ != "Fleet" or not isinstance(getattr(e, "delay", None), (int, float)):
                continue
            limit = e.delay + 2 * e.transit_delay
            for r in F.items.values():
                if r.loc == ("edge", e) and not any(r.obj is x for x in F.store_of(e).ready_items):
                    t_in = next((h[1] for h in reversed(r.hist) if h[0] == "put" and h[2] is e), None)
                    F.ctx.hit("C03:fleet-residence-checked")
                    if t_in is not None and now - t_in > limit + 2e-5:
                        F.soft("C03:item-still-loaded-on-a-fleet-longer-than-waiting-period-plus-round-trip", {"item": repr(r.obj)})
    if "C03" in F.props and until is None and _fair(F):
        # finite input, run to quiescence: everything generated was received or discarded unless something is blocked
        gen = sum(n.stats["num_item_generated"] for n in F.nodes if n.__class__.__name__ == "Source")
        disc = sum(n.stats.get("num_item_discarded", 0) for n in F.nodes if n.__class__.__name__ != "Sink")
        recv = sum(n.stats["num_item_received"] for n in F.nodes if n.__class__.__name__ == "Sink")
        F.ctx.hit("C03:quiescence-checked")
        if gen != disc + recv:
            F.soft("C03:items-left-behind-at-quiescence", {"generated": gen, "discarded": disc, "received": recv})


# ---------------------------------------------------------------------------------------------
# C10 observer: work is never stranded (token based, evaluated at the end of every instant)


def edge_delay(F, e):
    return F.edge_delays.get(e.id, 0)


def available_unbound(F, e):
    """ledger view of items on e that a retrieval could be bound to now (Buffer: put time + delay elapsed)"""
    now = F.env.now
    cls = e.__class__.__name__
    if cls == "Buffer":
        d = edge_delay(F, e)
        per_item = None
        if not isinstance(d, (int, float)):
            # a delay source: the k-th put on this edge drew the k-th value of the source (one edge per source)
            vals = [v for (owner, t, v, k) in F.delay_calls if owner == getattr(F, "delay_owner", {}).get(e.id)]
            puts = [ev[4] for ev in F.events if ev[0] == "put" and ev[2] is e]
            per_item = {id(rec): vals[i] for i, rec in enumerate(puts) if i < len(vals)}
        n = 0
        for r in F.items.values():
            if r.loc == ("edge", e):
                tput = r.hist[-1][1]
                dd = per_item.get(id(r), 0) if per_item is not None else d
                if tput + dd <= now:
                    n += 1
    else:
        # fleets / conveyors: availability is what the edge itself reports (its timing is checked by C12-C14)
        s = F.store_of(e)
        n = len(s.ready_items)
    g = sum(1 for t in F.standing(e, "get") if t.granted)
    return n - g


def c10_instant(F):
    ctx = F.ctx
    now = F.env.now
    bind_delays(F)
    for n in F.nodes:
        cls = n.__class__.__name__
        if cls == "Source":
            continue
        setup = getattr(n, "node_setup_time", 0)
        if cls != "Sink" and not (now >= setup):
            continue
        if cls == "Sink":
            free_worker = True
        elif cls == "Machine":
            held = [r for r in F.items.values() if r.loc == ("node", n)]
            free_worker = len(held) < n.work_capacity
        else:
            continue
        gets = F.standing(kind="get", node=n)
        ctx.hit("C10:input-side-checked")
        for t in gets:
            if t.granted and free_worker:
                F.soft("C10:retrieval-granted-but-item-not-taken-in-that-instant@" + cls, {"edge": t.edge.id})
        sel = getattr(n, "in_edge_selection", "FIRST_AVAILABLE")
        by_edge = {}
        for t in gets:
            by_edge[t.edge.id] = by_edge.get(t.edge.id, 0) + 1
        for eid, k in by_edge.items():
            if k > 1:
                F.soft("C10:more-than-one-retrieval-request-left-on-an-edge@" + cls, {"edge": eid, "n": k})
        if free_worker:
            if cls == "Sink" or sel == "FIRST_AVAILABLE":
                want = list(n.in_edges)
                for e in want:
                    if by_edge.get(e.id, 0) == 0:
                        if available_unbound(F, e) > 0:
                            F.soft("C10:item-available-but-node-not-asking-for-it@" + cls, {"edge": e.id})
            else:
                if not gets:
                    # a policy-driven node must be waiting on the edge its policy chose; if it waits nowhere an
                    # available item on any permitted edge is stranded
                    if any(available_unbound(F, e) > 0 for e in n.in_edges):
                        F.soft("C10:free-worker-but-no-retrieval-request-outstanding@" + cls, {})
            for t in gets:
                if not t.granted and available_unbound(F, t.edge) > 0:
                    F.soft("C10:retrieval-pending-although-item-available@" + cls, {"edge": t.edge.id})
        else:
            if gets and cls == "Machine":
                F.soft("C10:retrieval-request-left-standing-without-a-free-worker@" + cls, {"edges": sorted(by_edge)})
    # output side
    for n in F.nodes:
        cls = n.__class__.__name__
        if cls not in ("Machine", "Source"):
            continue
        puts = F.standing(kind="put", node=n)
        for t in puts:
            if t.granted:
                F.soft("C10:space-granted-but-not-used-in-that-instant@" + cls, {"edge": t.edge.id})
        by_edge = {}
        for t in puts:
            by_edge[t.edge.id] = by_edge.get(t.edge.id, 0) + 1
        if cls == "Machine":
            finished = 0
            for r in F.items.values():
                if r.loc == ("node", n) and r.pulls and r.pulls[-1]["d"] is not None and r.pulls[-1]["t"] + r.pulls[-1]["d"] <= now:
                    finished += 1
            ctx.hit("C10:output-side-checked")
            for eid, k in by_edge.items():
                if k > finished:
                    F.soft("C10:more-space-requests-than-finished-items@" + cls, {"edge": eid, "requests": k, "finished": finished})
            if finished and n.blocking:
                es = list(n.out_edges) if n.out_edge_selection == "FIRST_AVAILABLE" else [t.edge for t in puts]
                if n.out_edge_selection != "FIRST_AVAILABLE" and len(puts) < finished:
                    F.soft("C10:finished-item-without-a-space-request@" + cls, {"finished": finished, "requests": len(puts)})
                for e in es:
                    if n.out_edge_selection == "FIRST_AVAILABLE" and by_edge.get(e.id, 0) < finished and has_room_for(F, e, n):
                        F.soft("C10:finished-item-not-requesting-space-on-an-edge-with-room@" + cls, {"edge": e.id})
                    if has_room_for(F, e, n):
                        F.soft("C10:finished-item-held-although-an-out-edge-has-room@" + cls, {"edge": e.id})
            if not finished and puts:
                F.soft("C10:space-request-left-standing-without-a-finished-item@" + cls, {"edges": sorted(by_edge)})
        else:
            gen = n.stats["num_item_generated"]
            first = sum(1 for r in F.items.values() if r.src is n)
            held = gen - first - n.stats["num_item_discarded"]
            if held == 0 and puts:
                F.soft("C10:space-request-left-standing-without-an-item@Source", {"edges": sorted(by_edge)})
            if held > 0 and n.blocking:
                es = list(n.out_edges) if n.out_edge_selection == "FIRST_AVAILABLE" else [t.edge for t in puts]
                for e in es:
                    if has_room_for(F, e, n):
                        F.soft("C10:source-holds-an-item-although-an-out-edge-has-room", {"edge": e.id})


def c10_quiescence(F):
    """finite input, nothing scheduled any more: whatever is left must sit behind a blocked consumer -
    in these scenarios every consumer chain ends in a sink, so nothing may be left at all"""
    F.ctx.hit("C10:quiescence-checked")
    left = [r for r in F.items.values() if r.loc is not None and r.loc[0] in ("edge", "node")]
    if left:
        F.soft("C10:items-stranded-at-quiescence", {"where": sorted({(r.loc[0], getattr(r.loc[1], 'id', '?')) for r in left})})
    leaked = [t for t in F.toks.values() if t.state == "out" and t.granted]
    if leaked:
        F.soft("C10:granted-reservation-left-behind-at-quiescence", {"tokens": [repr(t) for t in leaked]})


# ---------------------------------------------------------------------------------------------
# C09 / C15 oracles evaluated after every kernel event


def c09_step(F):
    """drops: only non-blocking nodes drop, only when no permitted out-edge has room at that moment, each drop counted once"""
    ctx = F.ctx
    for n in F.nodes:
        cls = n.__class__.__name__
        if cls == "Sink":
            continue
        cnt = n.stats.get("num_item_discarded", 0)
        prev = getattr(n, "_vf_prev_disc", 0)
        if cnt != prev:
            n._vf_prev_disc = cnt
            ctx.hit("C09:discard-seen")
            if n.blocking:
                F.soft("C09:blocking-node-discarded-an-item@" + cls, {"node": n.id})
            else:
                if cnt - prev != 1 and cls in ("Machine", "Source"):   # a splitter may drop several items of one pallet in one step
                    F.soft("C09:discard-count-rose-by-%d@%s" % (cnt - prev, cls), {})
                exp = getattr(F, "sel_answers", {}).get((n.id, "out"))
                if cls == "Splitter" and exp is not None and n.out_edge_selection != "FIRST_AVAILABLE":
                    # several drops in one kernel step (no time passes, nothing is pushed in between): every dropped item must have been offered to
                    # the edge the policy selected for IT - the j-th item that asked for an edge gets the j-th answer
                    moves = sum(1 for ev in F.events if ev[0] == "put" and ev[3] is n)
                    for j in range(cnt - prev):
                        a = moves + prev + j
                        if a < len(exp) and 0 <= exp[a] < len(n.out_edges) and has_room_for(F, n.out_edges[exp[a]], None):
                            F.soft("C09:non-blocking-node-dropped-an-item-although-its-selected-out-edge-had-room@Splitter", {"edge": n.out_edges[exp[a]].id, "answer": a})
                            break
                    continue
                if n.out_edge_selection == "FIRST_AVAILABLE":
                    es = list(n.out_edges)
                else:
                    k = F.last_out_choice.get(n.id)
                    es = [n.out_edges[k]] if k is not None and 0 <= k < len(n.out_edges) else []
                for e in es:
                    # every granted space token counts (a sibling worker's too); conveyors: plus their admission rules
                    if has_room_for(F, e, None):
                        F.soft("C09:non-blocking-node-dropped-an-item-although-an-out-edge-had-room@" + cls, {"edge": e.id})
                        break


def c09_instant(F):
    now = F.env.now
    for n in F.nodes:
        if n.__class__.__name__ in ("Machine", "Splitter", "Combiner", "Source") and not n.blocking:
            waiting = [t for t in F.standing(kind="put", node=n) if not t.granted]
            if waiting:
                F.soft("C09:non-blocking-node-waits-for-space@" + n.__class__.__name__, {"edges": sorted({t.edge.id for t in waiting})})
    for n in F.nodes:
        if n.__class__.__name__ == "Source" and not n.blocking:
            first = sum(1 for r in F.items.values() if r.src is n)
            held = n.stats["num_item_generated"] - first - n.stats["num_item_discarded"]
            F.ctx.hit("C09:nonblocking-source-checked")
            if held != 0:
                F.soft("C09:non-blocking-source-holds-an-item-across-an-instant", {"held": held})
            # the source keeps its cadence: the k-th item appears at g1+...+gk
            exp = 0
            acc = 0
            for g in F.src_gaps.get(n.id, []):
                acc = acc + g
                if acc <= now:
                    exp += 1
            if n.stats["num_item_generated"] != exp:
                F.soft("C09:non-blocking-source-lost-its-cadence", {"generated": n.stats["num_item_generated"], "expected": exp})


def c15_step(F):
    """routing obeys the policy answers; FIRST_AVAILABLE takes the lowest-index edge whose token is granted"""
    for ev in F.events[getattr(F, "_c15_seen", 0):]:
        kind, t, e, n, rec, tok = ev[:6]
        if kind not in ("put", "get") or n is None or n.__class__.__name__ in ("Sink",):
            continue
        side = "out" if kind == "put" else "in"
        edges = n.out_edges if side == "out" else n.in_edges
        sel = getattr(n, side + "_edge_selection", None)
        if side == "in" and n.__class__.__name__ == "Source":
            continue
        idx = next((i for i, x in enumerate(edges) if x is e), None)
        if idx is None:
            F.soft("C15:item-routed-over-an-edge-that-is-not-the-node's", {"edge": e.id})
            continue
        F.ctx.hit("C15:routing-checked")
        F.routing.setdefault((n.id, side), []).append(idx)
        exp = F.sel_answers.get((n.id, side))
        if exp is not None:
            # the k-th answer of the policy belongs to the k-th item that asked for an edge: moves so far plus (out side) drops so far
            k = len(F.routing[(n.id, side)]) - 1
            if side == "out":
                if n.__class__.__name__ in ("Source", "Splitter", "Combiner"):
                    # an item a source drops never enters the ledger (and drops of splitters / combiners are not located in the pallet scenarios):
                    # the node's own counter says how many answers went to dropped items
                    k += n.stats.get("num_item_discarded", 0)
                else:
                    k += sum(1 for r in F.items.values() if r.loc == ("discarded", n))
            if k < len(exp) and exp[k] != idx:
                F.soft("C15:item-routed-to-an-edge-other-than-the-policy-answered", {"node": n.id, "side": side, "k": k, "took": idx, "answer": exp[k]})
        if sel == "FIRST_AVAILABLE" or (n.__class__.__name__ == "Sink"):
            # every token of this node on a lower-index edge that was cancelled in this round must have been ungranted
            for t2 in F.toks.values():
                if t2.node is n and t2.kind == kind and t2.state == "cancelled" and getattr(t2, "t_cancel", None) is not None \
                        and F.ctx.eq(t2.t_cancel, t) and getattr(t2, "granted_at_cancel", False) and not getattr(t2, "c15_done", False):
                    j = next((i for i, x in enumerate(edges) if x is t2.edge), None)
                    t2.c15_done = True
                    if j is not None and j < idx:
                        F.soft("C15:first-available-skipped-a-lower-index-edge-that-could-serve", {"node": n.id, "side": side, "took": idx, "skipped": j})
    F._c15_seen = len(F.events)


def c15_instant(F):
    """FIRST_AVAILABLE on the out side of a non-blocking node picks by asking the edges: the edge it commits to must be able to serve at that
    instant when some out-edge can (a blocking node reserves on all edges and takes the first grant, checked in c15_step)"""
    for n in F.nodes:
        if n.__class__.__name__ not in ("Machine", "Splitter", "Combiner", "Source") or getattr(n, "blocking", True):
            continue
        if getattr(n, "out_edge_selection", None) != "FIRST_AVAILABLE":
            continue
        for t in F.standing(kind="put", node=n):
            if t.granted:
                continue
            F.ctx.hit("C15:nonblocking-first-available-wait-seen")
            for j, e2 in enumerate(n.out_edges):
                if e2 is not t.edge and has_room_for(F, e2, None):
                    F.soft("C15:first-available-committed-to-an-edge-that-cannot-serve-while-another-can",
                           {"node": n.id, "chosen": t.edge.id, "could": e2.id})
                    break


def c15_final(F):
    """the selection history a node records equals the routing that happened"""
    for n in F.nodes:
        if n.__class__.__name__ not in ("Machine", "Splitter", "Combiner"):
            continue
        for side in ("in", "out"):
            hist = n.stats.get(side + "_edge_selection")
            if hist is None:
                continue
            actual = F.routing.get((n.id, side), [])
            F.ctx.hit("C15:history-checked")
            sel = getattr(n, side + "_edge_selection")
            # a policy answer is recorded when it is consumed: items that were dropped (non-blocking) or are still held
            # account for recorded answers without a move, so the routing must be a prefix-compatible subsequence
            if list(hist[:len(actual)]) != list(actual) and F.discards(n) == 0 and len(hist) >= len(actual):
                F.soft("C15:recorded-%s-edge-history-differs-from-actual-routing" % side, {"recorded": list(hist), "actual": actual})
            if len(hist) < len(actual):
                F.soft("C15:recorded-%s-edge-history-shorter-than-actual-routing" % side, {"recorded": list(hist), "actual": actual})


# ---------------------------------------------------------------------------------------------
# fan:  S_i -> IN_i -> M(w) -> OUT_j -> K_j     (optionally a second machine M2 behind OUT_0)


def _edge(F, kind, name, cap, delay, **kw):
    from factorysimpy.edges.buffer import Buffer
    from factorysimpy.edges.fleet import Fleet
    env = F.env
    if kind == "buffer":
        e = Buffer(env, name, capacity=cap, delay=delay, mode=kw.get("mode", "FIFO"))
        F.edge_delays[name] = delay
    elif kind == "fleet":
        e = Fleet(env, name, capacity=cap, delay=kw.get("fdelay", 1), transit_delay=kw.get("transit", 0))
    elif kind == "sconv":
        from factorysimpy.edges.slotted_conveyor import ConveyorBelt
        e = ConveyorBelt(env, name, capacity=cap, delay=kw.get("slot", 1), accumulating=kw.get("acc", 1))
    elif kind == "cconv":
        from factorysimpy.edges.continuous_conveyor import ConveyorBelt
        e = ConveyorBelt(env, name, conveyor_length=cap, speed=1, item_length=1, accumulating=kw.get("acc", 1))
    else:
        raise ValueError(kind)
    return F.add_edge(e)


def _policy(F, ctx, node_name, side, pol, n_edges, n_answers):
    """returns the constructor argument for a selection policy and registers what the harness expects"""
    if pol in ("FIRST_AVAILABLE", "ROUND_ROBIN", "RANDOM") or isinstance(pol, int):
        if pol == "ROUND_ROBIN":
            F.sel_answers[(node_name, side)] = [k % n_edges for k in range(64)]
        elif isinstance(pol, int):
            F.sel_answers[(node_name, side)] = [pol] * 64
        return pol
    # user callable / generator whose answers the solver chooses ("...-bad": out-of-range answers -1 and n included - they must be rejected with an
    # error, never wrapped or ignored; a routed item then disagrees with the recorded answer)
    bad = isinstance(pol, str) and pol.endswith("-bad")
    if bad:
        pol = pol[:-4]
        vals = [ctx.choice(n_edges + 2, f"{node_name}.{side}.answer") - 1 for _ in range(n_answers)]
        F.sel_answers[(node_name, side)] = vals + [0] * 64
        F.ctx.hit("C15:out-of-range-answers-offered")
        return F.selector(node_name, side, vals, "generator" if pol == "generator" else "callable", after=0)
    vals = [ctx.choice(n_edges, f"{node_name}.{side}.answer") for _ in range(n_answers)]
    F.sel_answers[(node_name, side)] = vals + [0] * 64
    return F.selector(node_name, side, vals, "generator" if pol == "generator" else "callable", after=0)


def fan(props=("C03", "C08", "C10"), n_src=2, n_out=1, n_items=2, w=1, blocking=True, src_blocking=True, in_kind="buffer", out_kind="buffer",
        in_cap=2, out_cap=1, in_sel="FIRST_AVAILABLE", out_sel="FIRST_AVAILABLE", sym=("iat", "pd"), per_item_pd=False, until=None,
        out_delay="sym", in_delay=0, delay_kind="callable", setup=0, twin=False, same_iat=False, stats=False, src_out_sel=0, iat_lo=0.5,
        second_machine=False, conv_kw=None, T=None, sink_fanin=False, two_stage=False):
    def fn(ctx):
        from factorysimpy.nodes.source import Source
        from factorysimpy.nodes.machine import Machine
        from factorysimpy.nodes.sink import Sink
        F = Factory(ctx, props)
        env = F.env
        F.edge_delays = {}
        F.sel_answers = {}
        F.sel_moves = {}
        F.routing = {}
        F.last_out_choice = {}
        F.src_gaps = {}
        F.discards = lambda n: n.stats.get("num_item_discarded", 0)
        ckw = conv_kw or {}
        iats = []
        for i in range(n_src):
            if "iat" in sym and not (same_iat and i > 0):
                iats.append(ctx.real("iat", iat_lo, 3))
            elif same_iat and i > 0:
                iats.append(iats[0])
            else:
                iats.append(1)
        if per_item_pd:
            pds = [ctx.real("pd", 0, 4) for _ in range(n_src * n_items)]
        else:
            pd = ctx.real("pd", 0, 4) if "pd" in sym else 1
            pds = [pd] * (n_src * n_items + 2)
        od = ctx.real("od", 0, 4) if out_delay == "sym" else out_delay
        F.delay_owner = {}
        if out_delay == "sym-each":
            assert n_out == 1
            od = F.delay_source("OUTDELAY", [ctx.real("od", 0, 4) for _ in range(n_src * n_items)], "generator", after=0)
            F.delay_owner["OUT0"] = "OUTDELAY"
        idl = ctx.real("id", 0, 2) if in_delay in ("sym", "sym-last") else in_delay
        tot = n_src * n_items
        m = F.add_node(Machine(env, "M", work_capacity=w, processing_delay=F.delay_source("M", pds, delay_kind, after=1), blocking=blocking,
                               in_edge_selection=_policy(F, ctx, "M", "in", in_sel, n_src, tot),
                               out_edge_selection=_policy(F, ctx, "M", "out", out_sel, n_out, tot), node_setup_time=setup))
        srcs = []
        for i in range(n_src):
            gaps = [iats[i]] * n_items
            F.src_gaps[f"S{i}"] = gaps
            s = F.add_node(Source(env, f"S{i}", inter_arrival_time=F.delay_source(f"S{i}", gaps, "generator"), blocking=src_blocking,
                                  out_edge_selection=src_out_sel))
            srcs.append(s)
            # in_delay == "sym-last": only the last in-edge has the symbolic delay, the others none (ties between a timer and a put)
            e = _edge(F, in_kind, f"IN{i}", in_cap, (idl if i == n_src - 1 else 0) if in_delay == "sym-last" else idl, **ckw)
            e.connect(s, m)
        sinks = []
        for j in range(n_out):
            # sink_fanin: one sink collects from every out-edge
            k = sinks[0] if (sink_fanin and sinks) else F.add_node(Sink(env, f"K{j}"))
            if k not in sinks:
                sinks.append(k)
            # out_kind may be a tuple: one kind per out-edge
            e = _edge(F, out_kind[j] if isinstance(out_kind, (tuple, list)) else out_kind, f"OUT{j}", out_cap, od, **ckw)
            if second_machine and j == 0:
                # a second machine behind the first out-edge: M -> OUT0 -> M2 -> TAIL -> K0
                pd2 = ctx.real("pd2", 0, 4)
                m2 = F.add_node(Machine(env, "M2", work_capacity=1, processing_delay=F.delay_source("M2", [pd2] * (tot + 2), delay_kind, after=1),
                                        blocking=True, in_edge_selection=0, out_edge_selection=0))
                e.connect(m, m2)
                tail = _edge(F, "buffer", "TAIL", 1, 0)
                tail.connect(m2, k)
            else:
                e.connect(m, k)
        install(F)
        Tend = until
        if until == "sym":
            Tend = ctx.real("T", 0.25, T or 8)
        F.run(until=Tend)
        finish(F, Tend)
        if two_stage and until == "sym":
            # the statistics were read at T; the simulation is continued and they are read again at a later end time
            T2 = Tend + ctx.real("T2gap", 0, 4)
            F.run(until=T2)
            finish(F, T2)
            ctx.hit("two-stage-finalisation")
        ctx.log("recv", tuple(k.stats["num_item_received"] for k in sinks), "disc", m.stats["num_item_discarded"],
                tuple(s.stats["num_item_discarded"] for s in srcs))
        ctx.hit("complete")
        if twin:
            ctx.fail("TWIN:reached-end")
    return fn


# ---------------------------------------------------------------------------------------------
# C17 / C18: statistics after finalisation at time T


def _sweep(ctx, intervals, T):
    """intervals: list of (start, end, kind) with kind in {'p','b'}; returns durations per (n_proc>0, n_blk>0) class over [0, T]"""
    pts = []
    for (a, b, k) in intervals:
        if ctx.le(T, a):
            continue
        if ctx.lt(T, b):
            b = T
        if ctx.le(b, a):
            continue
        pts.append((a, k, 1))
        pts.append((b, k, -1))
    # insertion sort on (possibly symbolic) times
    order = []
    for p in pts:
        i = 0
        while i < len(order) and ctx.le(order[i][0], p[0]):
            i += 1
        order.insert(i, p)
    dur = {"idle": 0, "all_blocked": 0, "some_proc": 0, "all_proc": 0, "some_blk": 0}
    np_, nb = 0, 0
    last = 0
    for (t, k, d) in order + [(T, None, 0)]:
        dt = t - last
        if np_ == 0 and nb == 0:
            dur["idle"] = dur["idle"] + dt
        if np_ == 0 and nb > 0:
            dur["all_blocked"] = dur["all_blocked"] + dt
        if np_ > 0:
            dur["some_proc"] = dur["some_proc"] + dt
        if np_ > 0 and nb == 0:
            dur["all_proc"] = dur["all_proc"] + dt
        if nb > 0:
            dur["some_blk"] = dur["some_blk"] + dt
        last = t
        if k == "p":
            np_ += d
        elif k == "b":
            nb += d
    return dur


def c17_final(F, T):
    ctx = F.ctx
    bind_delays(F)
    for n in F.nodes:
        cls = n.__class__.__name__
        try:
            n.update_final_state_time(T)
        except symx.PathStop:
            raise
        except Exception as e:
            F.soft(f"C17:update_final_state_time-raised-{type(e).__name__}@{cls}", {"msg": str(e)[:120]})
            continue
        tot = n.stats["total_time_spent_in_states"]
        ctx.hit("C17:finalised@" + cls)
        for k, v in tot.items():
            if ctx.lt(v, 0):
                F.soft(f"C17:negative-time-in-{k}@{cls}", {})
        setup = getattr(n, "node_setup_time", 0)
        if cls == "Machine":
            a = tot["SETUP_STATE"] + tot["IDLE_STATE"] + tot["ATLEAST_ONE_PROCESSING_STATE"] + tot["ALL_ACTIVE_BLOCKED_STATE"]
            b = tot["SETUP_STATE"] + tot["IDLE_STATE"] + tot["ALL_ACTIVE_PROCESSING_STATE"] + tot["ATLEAST_ONE_BLOCKED_STATE"]
            occ = 0
            for v in n.time_per_work_occupancy:
                occ = occ + v
                if ctx.lt(v, 0):
                    F.soft("C17:negative-worker-occupancy-time@Machine", {})
            if not ctx.eq(a, T):
                F.soft("C17:state-group-A-does-not-add-up-to-T@Machine", {})
            if not ctx.eq(b, T):
                F.soft("C17:state-group-B-does-not-add-up-to-T@Machine", {})
            if not ctx.eq(occ, T):
                F.soft("C17:worker-occupancy-histogram-does-not-add-up-to-T@Machine", {})
            exp_setup = setup if ctx.le(setup, T) else T
            if not ctx.eq(tot["SETUP_STATE"], exp_setup):
                F.soft("C17:setup-time-not-charged-to-SETUP_STATE@Machine", {})
            iv = []
            for r in F.items.values():
                for p in r.pulls:
                    if p["node"] is n and p["d"] is not None:
                        done = p["t"] + p["d"]
                        iv.append((p["t"], done, "p"))
                        out = p["t_out"] if p["t_out"] is not None else T
                        iv.append((done, out, "b"))
            dur = _sweep(ctx, iv, T)
            idle = dur["idle"] - exp_setup
            for name, val in (("IDLE_STATE", idle), ("ALL_ACTIVE_BLOCKED_STATE", dur["all_blocked"]), ("ATLEAST_ONE_PROCESSING_STATE", dur["some_proc"]),
                              ("ALL_ACTIVE_PROCESSING_STATE", dur["all_proc"]), ("ATLEAST_ONE_BLOCKED_STATE", dur["some_blk"])):
                if not ctx.eq(tot[name], val):
                    F.soft(f"C17:{name}-differs-from-measured-activity@Machine", {})
        else:
            s = 0
            for v in tot.values():
                s = s + v
            if not ctx.eq(s, T):
                F.soft(f"C17:state-times-do-not-add-up-to-T@{cls}", {})
            if cls == "Source":
                # blocked = holding a generated item it could not deliver
                gaps = F.src_gaps.get(n.id, [])
                acc = 0
                blocked = 0
                mine = sorted([r for r in F.items.values() if r.src is n], key=lambda r: r.hist[0][1] if not isinstance(r.hist[0][1], (symx.SymReal,)) else 0)
                # k-th generated item appears at g1+..+gk (after the previous one was handed over)
                t_prev = setup
                k = 0
                puts = [r.hist[0][1] for r in F.items.values() if r.src is n]
                order = []
                for tp in puts:
                    i = 0
                    while i < len(order) and ctx.le(order[i], tp):
                        i += 1
                    order.insert(i, tp)
                if n.blocking and all(True for _ in order):
                    for tp, g in zip(order, gaps):
                        t_arr = t_prev + g
                        if ctx.le(t_arr, T):
                            end = tp if ctx.le(tp, T) else T
                            blocked = blocked + (end - t_arr)
                        t_prev = tp
                    # an item generated but not yet delivered at T
                    if len(order) < len(gaps) and n.stats["num_item_generated"] > len(order):
                        t_arr = t_prev + gaps[len(order)]
                        if ctx.le(t_arr, T):
                            blocked = blocked + (T - t_arr)
                    if not ctx.eq(tot["BLOCKED_STATE"], blocked):
                        F.soft("C17:BLOCKED_STATE-differs-from-measured-activity@Source", {})


def c18_final(F, T):
    ctx = F.ctx
    for n in F.nodes:
        cls = n.__class__.__name__
        if cls == "Source":
            first = sum(1 for r in F.items.values() if r.src is n)
            gen, disc = n.stats["num_item_generated"], n.stats["num_item_discarded"]
            ctx.hit("C18:counters-checked")
            # the stamps an item carries when it leaves its source (recorded at that put): creation no later than the exit from the source
            for (it_id, t_c, t_x) in getattr(F, "source_stamps", {}).get(n.id, []):
                if t_c is not None and t_x is not None and ctx.lt(t_x, t_c):
                    F.soft("C18:item-left-its-source-with-an-exit-stamp-earlier-than-its-creation-stamp", {"item": it_id})
            if not (first + disc <= gen <= first + disc + 1):
                F.soft("C18:num_item_generated-wrong@Source", {"generated": gen, "put": first, "discarded": disc})
        elif cls == "Machine":
            pushed = sum(1 for ev in F.events if ev[0] == "put" and ev[3] is n)
            dropped = sum(1 for r in F.items.values() if r.loc == ("discarded", n))
            if n.stats["num_item_processed"] != pushed:
                F.soft("C18:num_item_processed-differs-from-items-pushed@Machine", {"counter": n.stats["num_item_processed"], "pushed": pushed})
            if n.stats["num_item_discarded"] != dropped:
                F.soft("C18:num_item_discarded-differs-from-items-dropped@Machine", {"counter": n.stats["num_item_discarded"], "dropped": dropped})
        elif cls in ("Splitter", "Combiner"):
            pushed = sum(1 for ev in F.events if ev[0] == "put" and ev[3] is n)
            ctx.hit("C18:counters-checked@" + cls)
            if n.stats["num_item_processed"] != pushed:
                F.soft(f"C18:num_item_processed-differs-from-items-pushed@{cls}", {"counter": n.stats["num_item_processed"], "pushed": pushed})
        elif cls == "Sink":
            got = [r for r in F.items.values() if r.loc == ("sink", n)]
            if n.stats["num_item_received"] != len(got):
                F.soft("C18:num_item_received-differs-from-items-absorbed@Sink", {"counter": n.stats["num_item_received"], "absorbed": len(got)})
            cyc = 0
            for r in got:
                o = r.obj
                # creation time is the item's own stamp; it must lie at or before the instant the source released the item
                cyc = cyc + (r.hist[-1][1] - o.timestamp_creation)
                ts = [o.timestamp_creation]
                if o.timestamp_node_entry is not None:
                    ts.append(o.timestamp_node_entry)
                if o.timestamp_node_exit is not None and o.timestamp_node_entry is not None:
                    ts.append(o.timestamp_node_exit)
                ts.append(r.hist[-1][1])
                for a, b in zip(ts, ts[1:]):
                    if ctx.lt(b, a):
                        F.soft("C18:item-timestamps-decrease-along-the-route", {"item": repr(o)})
                if ctx.lt(r.t_created, o.timestamp_creation):
                    F.soft("C18:timestamp_creation-later-than-the-instant-the-source-released-the-item", {"item": repr(o)})
            ctx.hit("C18:cycle-time-checked")
            if not ctx.eq(n.stats["total_cycle_time"], cyc):
                F.soft("C18:total_cycle_time-differs-from-sum-of-reception-minus-creation@Sink", {})
    for e in F.edges:
        cls = e.__class__.__name__
        fin = {"Buffer": "update_final_buffer_avg_content", "Fleet": "update_final_fleet_avg_content", "ConveyorBelt": "update_final_conveyor_avg_content"}[cls]
        key = {"Buffer": "time_averaged_num_of_items_in_buffer", "Fleet": "time_averaged_num_of_items_in_fleet", "ConveyorBelt": "time_averaged_num_of_items_in_conveyor"}[cls]
        try:
            getattr(e, fin)(T)
        except symx.PathStop:
            raise
        except Exception as ex:
            F.soft(f"C18:{fin}-raised-{type(ex).__name__}@{cls}", {"msg": str(ex)[:100]})
            continue
        integ = 0
        for r in F.items.values():
            times = [(h[0], h[1]) for h in r.hist if h[2] is e]
            t_in = None
            for kind, t in times:
                if kind == "put":
                    t_in = t
                elif kind == "get" and t_in is not None:
                    integ = integ + (t - t_in)
                    t_in = None
            if t_in is not None:
                integ = integ + (T - t_in)
        val = e.stats[key]
        ctx.hit("C18:time-average-checked")
        qp = ctx.quot_parts(val)
        if qp is not None:
            num, den = qp
            if not ctx.eq(den, T) or not ctx.eq(num, integ):
                F.soft(f"C18:time-averaged-occupancy-differs-from-integral-over-T@{cls}", {})
        elif isinstance(val, (symx.SymReal, symx.SymInt)):
            F.soft(f"C18:time-averaged-occupancy-not-a-quotient@{cls}", {"val": repr(val)})
        else:
            exp = integ / T
            if not (abs(val - exp) <= 1e-9):
                F.soft(f"C18:time-averaged-occupancy-differs-from-integral-over-T@{cls}", {"reported": float(val), "expected": float(exp)})
        # reading the statistic a second time for the same end time must not change it
        try:
            getattr(e, fin)(T)
            val2 = e.stats[key]
            qp2 = ctx.quot_parts(val2)
            if qp is not None:
                same = qp2 is not None and ctx.eq(qp2[1], qp[1]) and ctx.eq(qp2[0], qp[0])
            else:
                same = abs(val2 - val) <= 1e-9
            if not same:
                F.soft(f"C18:time-averaged-occupancy-changes-when-read-twice-for-the-same-end-time@{cls}", {})
        except symx.PathStop:
            raise
        except Exception as ex:
            F.soft(f"C18:{fin}-raised-{type(ex).__name__}-when-called-twice@{cls}", {"msg": str(ex)[:100]})


# ---------------------------------------------------------------------------------------------
# C20: product of component combinations;  Source -> E1 -> Machine -> E2 -> Sink


def combo(props=("C20",), e1="buffer", e2="buffer", w=1, blocking=True, src_blocking=True, in_sel="FIRST_AVAILABLE", out_sel="FIRST_AVAILABLE",
          src_sel=0, n_items=3, n_src=1, n_out=1, order="edges-last", sym=("iat", "pd"), twin=False, cap1=2, cap2=2, fdelay="sym", acc=1):
    """all delays range over [0, d] so that zero delays and ties are reachable"""
    def fn(ctx):
        from factorysimpy.nodes.source import Source
        from factorysimpy.nodes.machine import Machine
        from factorysimpy.nodes.sink import Sink
        F = Factory(ctx, props)
        env = F.env
        F.edge_delays = {}
        F.sel_answers = {}
        F.sel_moves = {}
        F.routing = {}
        F.last_out_choice = {}
        F.src_gaps = {}
        F.discards = lambda n: n.stats.get("num_item_discarded", 0)
        iat = ctx.real("iat", 0 if src_blocking else 0.25, 2) if "iat" in sym else 1
        pd = ctx.real("pd", 0, 2) if "pd" in sym else 1
        ed = ctx.real("ed", 0, 2) if "ed" in sym else 0
        if fdelay == "sym" and ("fleet" in (e1, e2)):
            # zero, or at least half a time unit (an arbitrarily small period would mean unboundedly many timer events)
            fd = 0 if ctx.choice(2, "fleet-delay-zero?") else ctx.real("fd", 0.5, 2)
        else:
            fd = 1 if fdelay == "sym" else fdelay
        ft = ctx.real("ft", 0, 1) if "ft" in sym else 0.5
        kw = dict(fdelay=fd, transit=ft, acc=acc)

        def mk_edges():
            ins = [_edge(F, e1, f"IN{i}", cap1, ed, **kw) for i in range(n_src)]
            outs = [_edge(F, e2, f"OUT{j}", cap2, ed, **kw) for j in range(n_out)]
            return ins, outs

        def mk_nodes():
            m = F.add_node(Machine(env, "M", work_capacity=w, processing_delay=pd, blocking=blocking, in_edge_selection=in_sel, out_edge_selection=out_sel))
            srcs = [F.add_node(Source(env, f"S{i}", inter_arrival_time=F.delay_source(f"S{i}", [iat] * n_items, "generator"), blocking=src_blocking,
                                      out_edge_selection=src_sel)) for i in range(n_src)]
            sinks = [F.add_node(Sink(env, f"K{j}")) for j in range(n_out)]
            return m, srcs, sinks
        if order == "ctor-edges":
            # edges handed to the node constructors AND connected afterwards (the style of tests/test_machine.py): each edge must end up registered once
            ins, outs = mk_edges()
            m = F.add_node(Machine(env, "M", in_edges=list(ins), out_edges=list(outs), work_capacity=w, processing_delay=pd, blocking=blocking,
                                   in_edge_selection=in_sel, out_edge_selection=out_sel))
            srcs = [F.add_node(Source(env, f"S{i}", out_edges=[ins[i]], inter_arrival_time=F.delay_source(f"S{i}", [iat] * n_items, "generator"),
                                      blocking=src_blocking, out_edge_selection=src_sel)) for i in range(n_src)]
            sinks = [F.add_node(Sink(env, f"K{j}", in_edges=[outs[j]])) for j in range(n_out)]
        elif order == "edges-first":
            ins, outs = mk_edges()
            m, srcs, sinks = mk_nodes()
        else:
            m, srcs, sinks = mk_nodes()
            ins, outs = mk_edges()
        for i in range(n_src):
            ins[i].connect(srcs[i], m)
        for j in range(n_out):
            outs[j].connect(m, sinks[j])
        for n in [m] + srcs + sinks:
            for lst in (getattr(n, "in_edges", None) or [], getattr(n, "out_edges", None) or []):
                if len({id(x) for x in lst}) != len(lst):
                    F.soft("C20:edge-registered-twice-with-a-node", {"node": n.id})
        F.step_hooks.append(mon_capacity)
        # monotone simulated time (side assertion, see DESIGN.md §10)
        last = {"t": 0}

        def mono(F):
            if F.env.now < last["t"]:
                F.soft("C20:simulated-time-decreased", {})
            last["t"] = F.env.now
        F.step_hooks.append(mono)
        periodic = any(k in ("fleet", "sconv") for k in (e1, e2))
        F.run(until=(n_items * 2 + 12) if periodic else None, per_instant=1200, max_steps=8000)
        ctx.hit("C20:run-completed")
        ctx.log("recv", tuple(k.stats["num_item_received"] for k in sinks), "gen", tuple(s.stats["num_item_generated"] for s in srcs))
        ctx.hit("complete")
        if twin:
            ctx.fail("TWIN:reached-end")
    return fn


# ---------------------------------------------------------------------------------------------
# engine self-test on the repository's own test inputs (tests/test_machine.py::test_pipeline_stats)

TEST_MACHINE_ROWS = [(1, 1, 1, 4, 1, 0, 0), (0.25, 1, 1, 4, 1, 0, 0), (2, 3, 1, 4, 1, 0, 0), (1, 1, 5, 4, 1, 0, 0), (0.5, 1, 5, 4, 1, 0, 0), (2, 3, 5, 4, 1, 0, 0),
                     (1, 1, 1, 4, 1, 0, 3), (0.5, 2, 1, 4, 1, 0, 3), (1, 2, 1, 4, 1, 1, 3), (1, 1, 5, 4, 1, 0, 3), (0.5, 2, 5, 4, 1, 0, 3), (1, 2, 5, 4, 1, 0, 3)]


def selftest(T=40, twin=False):
    """The pipeline of tests/test_machine.py with every number wrapped as a degenerate symbolic range [c, c]: the engine must follow the
    single feasible path and, replayed with plain numbers (path validation is on for every path), produce the same statistics."""
    def fn(ctx):
        from factorysimpy.nodes.source import Source
        from factorysimpy.nodes.machine import Machine
        from factorysimpy.nodes.sink import Sink
        from factorysimpy.edges.buffer import Buffer
        F = Factory(ctx, ("C17", "C18"))
        env = F.env
        row = TEST_MACHINE_ROWS[ctx.choice(len(TEST_MACHINE_ROWS), "row")]
        iat, pd, w, c1, c2, d1, d2 = row
        iat = ctx.real("iat", iat, iat)
        pd = ctx.real("pd", pd, pd)
        d1 = ctx.real("d1", d1, d1)
        d2 = ctx.real("d2", d2, d2)
        Tend = ctx.real("T", T, T)
        src = F.add_node(Source(env, "SRC", inter_arrival_time=iat))
        b1 = F.add_edge(Buffer(env, "BUF1", capacity=c1, delay=d1))
        m = F.add_node(Machine(env, "M1", processing_delay=pd, work_capacity=w))
        b2 = F.add_edge(Buffer(env, "BUF2", capacity=c2, delay=d2))
        snk = F.add_node(Sink(env, "SNK"))
        b1.connect(src, m)
        b2.connect(m, snk)
        F.run(until=Tend, max_steps=20000)
        b2.update_final_buffer_avg_content(Tend)
        b1.update_final_buffer_avg_content(Tend)
        m.update_final_state_time(Tend)
        snk.update_final_state_time(Tend)
        tot = m.stats["total_time_spent_in_states"]
        a = tot["SETUP_STATE"] + tot["IDLE_STATE"] + tot["ATLEAST_ONE_PROCESSING_STATE"] + tot["ALL_ACTIVE_BLOCKED_STATE"]
        if not ctx.eq(a, Tend):
            ctx.fail("C17:state-group-A-does-not-add-up-to-T@Machine[selftest]", {"row": row})
        ctx.hit("selftest-row")
        ctx.log("stats", m.stats["num_item_processed"], m.stats["num_item_discarded"], snk.stats["num_item_received"], src.stats["num_item_generated"],
                src.stats["num_item_discarded"], tuple(tot[k] for k in sorted(tot)), tuple(m.time_per_work_occupancy), snk.stats["total_cycle_time"])
        ctx.hit("complete")
        if twin:
            ctx.fail("TWIN:reached-end")
    return fn



# ---------------------------------------------------------------------------------------------
# srcfan:  Source(FIRST_AVAILABLE or policy, 2 out-edges) -> OUT_j (capacity 1, symbolic delays) -> Sink_j


def srcfan(props=("C15", "C03", "C10"), n_items=4, n_out=2, src_sel="FIRST_AVAILABLE", blocking=True, twin=False, sink_fanin=False):
    def fn(ctx):
        from factorysimpy.nodes.source import Source
        from factorysimpy.nodes.sink import Sink
        F = Factory(ctx, props)
        env = F.env
        F.edge_delays = {}
        F.sel_answers = {}
        F.sel_moves = {}
        F.routing = {}
        F.last_out_choice = {}
        F.src_gaps = {}
        F.discards = lambda n: n.stats.get("num_item_discarded", 0)
        iat = ctx.real("iat", 0.25, 2)
        ods = [ctx.real("od", 0, 3) for _ in range(n_out)]
        gaps = [iat] * n_items
        F.src_gaps["S0"] = gaps
        src = F.add_node(Source(env, "S0", inter_arrival_time=F.delay_source("S0", gaps, "generator"), blocking=blocking,
                                out_edge_selection=_policy(F, ctx, "S0", "out", src_sel, n_out, n_items)))
        sinks = []
        for j in range(n_out):
            k = sinks[0] if (sink_fanin and sinks) else F.add_node(Sink(env, f"K{j}"))
            if k not in sinks:
                sinks.append(k)
            e = _edge(F, "buffer", f"OUT{j}", 1, ods[j])
            e.connect(src, k)
        install(F)
        F.run(until=None)
        finish(F, None)
        ctx.log("recv", tuple(k.stats["num_item_received"] for k in sinks))
        ctx.hit("complete")
        if twin:
            ctx.fail("TWIN:reached-end")
    return fn
