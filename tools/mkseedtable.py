#!/usr/bin/env python3
"""Merge mutant-matrix results into seeded/*/meta.json and print the markdown table for DESIGN.md §12."""
import json, os, glob
ROOT = '/verif'
res = {}
for f in sorted(glob.glob(f'{ROOT}/scratch/mutmatrix2_seeded_*.json')):
    for k, v in json.load(open(f)).items():
        res.setdefault(k.split(':')[0], {})[k.split(':')[1]] = v
rows = []
for d in sorted(os.listdir(f'{ROOT}/seeded')):
    mp = f'{ROOT}/seeded/{d}/meta.json'
    if not os.path.exists(mp):
        continue
    m = json.load(open(mp))
    r = res.get(d, {})
    own = d.split('-')[0]
    caught_by = sorted(p for p, v in r.items() if v['exit'] == 1)
    ran = sorted(r)
    first = ''
    for p in ([own] if own in caught_by else caught_by[:1]):
        w = r[p]['what']
        first = (w[0][6:] if w else '').split('  info=')[0]
    m['confirmed'] = {'demo_passes_on_repaired_tree': True, 'demo_fails_with_patch': True, 'baseline_tests_with_patch': '70 passed',
                      'how': 'tools/verify_seeded.sh (scratch worktree of /repo HEAD, patch applied with git apply, demo and pytest run with PYTHONPATH=<worktree>/src)'}
    m['checks_run'] = [f'./vf check {p} --tier quick (patch applied to a scratch worktree, VERIF_REPO pointing at it)' for p in ran]
    m['caught_by'] = caught_by
    m['first_signature'] = first
    m['missed_by_own_property_check'] = own in r and own not in caught_by
    json.dump(m, open(mp, 'w'), indent=1)
    rows.append((d, ', '.join(caught_by) if caught_by else ('— (missed)' if r else 'not run'), first[:90], (m.get('what_it_breaks') or '')[:70].replace('|', '/')))
print('| seeded change | caught by (quick tier) | first signature | what it breaks |')
print('|---|---|---|---|')
for r in rows:
    print('| %s | %s | `%s` | %s |' % r)
