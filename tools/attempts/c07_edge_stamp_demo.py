"""Rejected ConveyorBelt.put offering an item that is already on the belt moves its conveyor_entry_time.
Run: PYTHONPATH=/repo/src /venv/bin/python tools/attempts/c07_edge_stamp_demo.py   (prints the field before/after)"""
import io, contextlib, simpy
from factorysimpy.edges.continuous_conveyor import ConveyorBelt


class Item:
    def __init__(self, id):
        self.id = id
        self.length = 1


out = {}


def run():
    env = simpy.Environment()
    cv = ConveyorBelt(env, "CV", conveyor_length=3, speed=1, item_length=1, accumulating=1)
    cv.src_node = object()
    cv.dest_node = object()
    a = Item("a")

    def proc():
        tok = cv.reserve_put()
        yield tok
        cv.put(tok, a)
        yield env.timeout(1.5)
        out["before"] = a.conveyor_entry_time
        try:
            cv.put(tok, a)          # token used twice
            out["raised"] = None
        except RuntimeError as e:
            out["raised"] = "RuntimeError"
        out["after"] = a.conveyor_entry_time
    env.process(proc())
    env.run(until=2)


with contextlib.redirect_stdout(io.StringIO()):
    run()
print(out)
