#!/usr/bin/env python3
"""refresh the last column (paths / wall / exhaustive jobs) of the summary table in DESIGN.md section 2 from evidence/*.json"""
import json, re
p = '/verif/DESIGN.md'
s = open(p).read()


def fmt(n):
    return f"{n/1000:.0f} k" if n >= 100000 else (f"{n/1000:.1f} k" if n >= 1000 else str(n))


for pid in ['C%02d' % i for i in range(1, 21)]:
    try:
        e = json.load(open(f'/verif/evidence/{pid}.json'))
    except Exception:
        continue
    if e.get('tier') != 'quick':
        print('note:', pid, 'evidence is from tier', e.get('tier'))
    jobs = e['coverage']['jobs']
    ex = sum(1 for j in jobs if j['exhaustive'])
    last = f"{fmt(e['coverage']['evaluations'])} / {e['wall_s']:.0f} s ({ex}/{len(jobs)} jobs exhaustive)"
    pat = re.compile(r'^(\| %s \|.*\| )[^|]*\|$' % pid, re.M)
    m = pat.search(s)
    if m:
        s = s[:m.start()] + m.group(1) + last + ' |' + s[m.end():]
open(p, 'w').write(s)
print('ok')
