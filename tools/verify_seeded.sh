#!/bin/bash
# For every /verif/seeded/<id>: demo passes on a clean checkout of /repo HEAD, fails with patch.diff, test suite still 70 passed.
OUT=${1:-/verif/scratch/seeded_verify.txt}
: > $OUT
WT=/tmp/wtv2
git -C /repo worktree remove --force $WT 2>/dev/null
git -C /repo worktree add -f --detach $WT HEAD >/dev/null 2>&1
for d in /verif/seeded/${2:-}*/; do
  id=$(basename $d)
  cd $WT && git checkout -q -- . && git clean -fdq
  cp $d/demo.py $WT/demo.py
  PYTHONPATH=$WT/src timeout 300 /venv/bin/python demo.py >/dev/null 2>&1; clean=$?
  git apply $d/patch.diff 2>/dev/null; ap=$?
  PYTHONPATH=$WT/src timeout 300 /venv/bin/python demo.py >/dev/null 2>&1; mut=$?
  tests=$(PYTHONPATH=$WT/src timeout 900 /venv/bin/python -m pytest -q -p no:cacheprovider tests 2>&1 | tail -1)
  echo "$id apply=$ap demo_clean=$clean demo_mut=$mut tests=[$tests]" >> $OUT
done
cd /; git -C /repo worktree remove --force $WT
echo DONE >> $OUT
