#!/bin/bash
# usage: jobmut.sh <seeded-id> <prop> <tier> <job-substring> [budget]   -- one job against a scratch worktree carrying the seeded change
WT=/tmp/wtc
git -C $WT checkout -q -- . ; git -C $WT clean -fdq
git -C $WT apply /verif/seeded/$1/patch.diff || exit 9
cd /verif; VERIF_REPO=$WT PYTHONPATH=/verif/.deps /venv/bin/python tools/job.py $2 $3 "$4" $5 2>&1 | cut -c1-600
git -C $WT checkout -q -- . ; git -C $WT clean -fdq
