#!/bin/bash
# usage: tools/withmut.sh <patch.diff> <command...>   - applies the patch to /repo, runs the command, always reverts
d=$(realpath "$1"); shift
git -C /repo diff --quiet || { echo "/repo is dirty"; exit 9; }
git -C /repo apply "$d" || { echo "patch does not apply"; exit 9; }
"$@"; rc=$?
git -C /repo checkout -- . 
exit $rc
