#!/bin/bash
# usage: runmut.sh <seeded-id> <prop> [tier]  -- apply to /tmp/wtc and run check there
WT=/tmp/wtc
git -C $WT checkout -q -- . ; git -C $WT clean -fdq
git -C $WT apply /verif/seeded/$1/patch.diff || exit 9
cd /verif; VERIF_REPO=$WT VERIF_EVIDENCE_DIR=/tmp/wtc_evidence ./vf check $2 --tier ${3:-quick} | cut -c1-400
echo "exit ${PIPESTATUS[0]}"
git -C $WT checkout -q -- . ; git -C $WT clean -fdq
