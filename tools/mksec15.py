#!/usr/bin/env python3
"""Rebuild DESIGN.md section 15 from tools/sec15_prose.md + the table printed by tools/mkseedtable.py."""
import json, os, subprocess
ROOT = '/verif'
table = subprocess.run(['python3', f'{ROOT}/tools/mkseedtable.py'], capture_output=True, text=True).stdout
metas = []
for d in sorted(os.listdir(f'{ROOT}/seeded')):
    mp = f'{ROOT}/seeded/{d}/meta.json'
    if os.path.exists(mp):
        metas.append((d, json.load(open(mp))))
missed = [d for d, m in metas if m.get('checks_run') and not m.get('caught_by')]
notrun = [d for d, m in metas if not m.get('checks_run')]
neigh = [f"{d} ({', '.join(m['caught_by'])})" for d, m in metas if m.get('caught_by') and d.split('-')[0] not in m['caught_by']]
why = json.load(open(f'{ROOT}/tools/missed_why.json')) if os.path.exists(f'{ROOT}/tools/missed_why.json') else {}
prose = open(f'{ROOT}/tools/sec15_prose.md').read()
prose = prose.replace('@COUNT@', str(len(metas)))
prose = prose.replace('@MISSED@', '; '.join(f"{d} – {why.get(d, 'see its meta.json')}" for d in missed) or 'none')
prose = prose.replace('@NEIGHBOUR@', ', '.join(neigh) or 'none')
if notrun:
    prose += '\nNot run against the final harness: ' + ', '.join(notrun) + '\n'
s = open(f'{ROOT}/DESIGN.md').read()
i = s.index('## 15. Seeded changes: which check catches which')
open(f'{ROOT}/DESIGN.md', 'w').write(s[:i] + prose + '\n' + table)
print('caught', sum(1 for d, m in metas if m.get('caught_by')), 'of', len(metas), 'missed', missed, 'not run', len(notrun))
