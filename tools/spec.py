import sys, json
sys.path.insert(0,'/verif'); sys.path.insert(0,'/verif/.deps')
from vfy import explore
mod, fac = sys.argv[1], sys.argv[2]
kw = eval(sys.argv[3]); budget = float(sys.argv[4]) if len(sys.argv) > 4 else 30
o = explore.explore((mod, fac, kw), budget_s=budget, validate_every=25)
sigs = {}
for r in o['violations']+o['findings']:
    sigs.setdefault((r['label'], r['reproduced']), r)
print(kw, 'paths', o['paths'], 'exh', o['exhaustive'], 'wall %.1f' % o['wall_s'], o['status'], o['aborts'], 'validated', o['validated'], 'valfail', len(o['validation_failures']))
for (l, rep), r in sorted(sigs.items()):
    print('   ', l, 'repro', rep, r['choices'], r['model'], r['info'], r['concrete'])
if o['validation_failures']: print('   VALFAIL', o['validation_failures'][0])
w = o['witness']; print('   witness', {k: v for k, v in sorted(w.items()) if not k.startswith('step')})
