#!/bin/bash
# run every thorough check once, sequentially; log to scratch/thorough_<id>.log
cd "$(dirname "$0")/.." && mkdir -p scratch
for p in ${@:-C01 C02 C03 C04 C05 C06 C07 C08 C09 C10 C11 C12 C13 C14 C15 C16 C17 C18 C20}; do
  s=$(date +%s)
  ./vf check $p --tier thorough > scratch/thorough_$p.log 2>&1
  echo "$p exit $? $(( $(date +%s) - s ))s $(tail -1 scratch/thorough_$p.log | cut -c1-220)" >> scratch/thorough_summary.txt
  cp evidence/$p.json scratch/thorough_evidence_$p.json
done
echo DONE >> scratch/thorough_summary.txt
