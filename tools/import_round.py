#!/usr/bin/env python3
"""import_round.py <round> [ids...]: copy /tmp/mut<round>/<Cxx>/{m,demo,meta}{1,2} into /verif/seeded/<Cxx>-r<round>m<k>/ (patch.diff, demo.py, meta.json)"""
import json, os, shutil, sys
rnd = sys.argv[1]
only = sys.argv[2:]
root = f'/tmp/mut{rnd}'
for p in sorted(os.listdir(root)):
    d = f'{root}/{p}'
    if not os.path.isdir(d) or (only and p not in only):
        continue
    for k in (1, 2):
        if not all(os.path.exists(f'{d}/{f}{k}.{e}') for f, e in (('m', 'diff'), ('demo', 'py'), ('meta', 'json'))):
            print('incomplete', p, k)
            continue
        t = f'/verif/seeded/{p}-r{rnd}m{k}'
        os.makedirs(t, exist_ok=True)
        shutil.copy(f'{d}/m{k}.diff', f'{t}/patch.diff')
        shutil.copy(f'{d}/demo{k}.py', f'{t}/demo.py')
        try:
            m = json.load(open(f'{d}/meta{k}.json'))
        except Exception as e:
            print('meta unreadable', p, k, e)
            m = {}
        m['property'] = p
        m['round'] = int(rnd)
        json.dump(m, open(f'{t}/meta.json', 'w'), indent=1)
print(len(os.listdir('/verif/seeded')), 'seeded changes')
