#!/usr/bin/env python3
"""print per-property numbers of the current evidence files (for DESIGN.md §2)"""
import json, glob
print('| id | tier | jobs | exhaustive jobs | paths | completed | solver queries | solver s | validated replays | known findings | wall s |')
print('|---|---|---|---|---|---|---|---|---|---|---|')
for f in sorted(glob.glob('/verif/evidence/C*.json')):
    e = json.load(open(f)); c = e['coverage']
    jobs = c['jobs']
    print(f"| {e['property_id']} | {e['tier']} | {len(jobs)} | {sum(1 for j in jobs if j['exhaustive'])} | {c['evaluations']} | {c['distinct_nontrivial']} | {c['solver']['queries']} | {c['solver']['solver_s']} | {c['path_replays_validated_against_plain_python']} | {len(c['known_findings_hit'])} | {e['wall_s']} |")
