#!/bin/bash
# full quick sweep on the current /repo working tree; one line per property
cd /verif
for p in C01 C02 C03 C04 C05 C06 C07 C08 C09 C10 C11 C12 C13 C14 C15 C16 C17 C18 C20; do
  out=$(./vf check $p --tier quick 2>&1); rc=$?
  echo "$p exit $rc $(echo "$out" | grep -c '^VIOLATION') violations | $(echo "$out" | grep "^$p \[quick\]")"
  echo "$out" | grep "^VIOLATION\|^  what\|^HARNESS" | cut -c1-400
done
