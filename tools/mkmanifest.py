import json, sys
sys.path.insert(0,'/verif'); sys.path.insert(0,'/verif/.deps')
from vfy import props
TECH = {
 'M1': "bounded symbolic execution (own z3-backed executor 'symx') of the real store classes over public-API call histories from a constructed symbolic state",
 'M2': "bounded symbolic execution (symx + z3) of a small factory built from the real node/edge classes on the real SimPy kernel, symbolic delays, all event orderings",
}
claimed = json.load(open('/verif/tools/claimed.json'))
notapp = json.load(open('/verif/tools/notapp.json'))
checks = []
for pid in sorted(claimed):
    c = claimed[pid]
    checks.append({
      "property_id": pid,
      "quick_cmd": f"./vf check {pid} --tier quick",
      "thorough_cmd": f"./vf check {pid} --tier thorough",
      "evidence_file": f"/verif/evidence/{pid}.json",
      "replay_cmd_template": "./vf replay {path}",
      "engine": "symx",
      "level_claimed": {"category": "other", "text": c["text"], "design_ref": c.get("ref", "DESIGN.md §5")},
      "level_note": c["note"],
      "technique": c["technique"],
    })
m = {
 "version": 1,
 "setup_cmd": "test -d .deps/z3 || /venv/bin/pip install -q --no-index --find-links /opt/veriftools/wheels --target .deps z3-solver",
 "hooks": {"guard": "FACTORYSIMPY_VERIF", "enable": "no source hooks: all instrumentation is applied to instances and module names from the harness side; ./vf exports FACTORYSIMPY_VERIF=1 (unused by /repo)",
           "baseline_off_cmd": "cd /repo && /venv/bin/python -m pytest -ra -q -p no:cacheprovider --timeout=900 --continue-on-collection-errors",
           "source_commits": [], "add_only": True},
 "engines": [{"name": "symx", "path": "/verif/vfy/symx.py", "serves_properties": sorted(claimed),
              "kind_free_text": "dynamic symbolic execution of the real Python code: float/int subclasses carrying linear terms, every comparison decided by z3 (SMT-LIB2 via z3 5.1 python wheel), DFS by re-execution over 16 processes, counterexamples replayed with plain numbers"}],
 "checks": checks,
 "not_applicable": notapp,
 "notes": "Fixes of genuine defects are 'fix:' commits in /repo (see known_findings.json, status fixed). known_findings.json lists recorded defects; checks print KNOWN-FINDING lines for them.",
}
json.dump(m, open('/verif/MANIFEST.json','w'), indent=1)
print(len(checks), 'checks', len(notapp), 'n/a')
