import sys, json
sys.path.insert(0,'/verif'); sys.path.insert(0,'/verif/.deps')
from vfy import props, explore
pid, tier = sys.argv[1], sys.argv[2]
sel = sys.argv[3] if len(sys.argv) > 3 else ''
for job in props.PROPS[pid]['jobs'](tier):
    if sel and sel not in job['name']: continue
    o = explore.explore(job['spec'], budget_s=float(sys.argv[4]) if len(sys.argv)>4 else job['budget_s'])
    sigs = {}
    for r in o['violations']+o['findings']:
        sigs.setdefault((r['label'], r['reproduced']), r)
    print(job['name'], 'paths', o['paths'], 'exh', o['exhaustive'], 'wall %.1f' % o['wall_s'], o['status'], o['aborts'], 'valfail', len(o['validation_failures']), file=sys.stderr)
    for (l, rep), r in sigs.items():
        print('   ', l, 'repro', rep, r['choices'], r['model'], r['info'], r['concrete'], file=sys.stderr)
    if o['validation_failures']: print('   VALFAIL', o['validation_failures'][0], file=sys.stderr)
