#!/usr/bin/env python3
"""Run checks against every seeded mutant: apply patch to /repo, run ./vf check <prop> --tier quick, revert.
usage: mutmatrix.py [own|all] [ids...]   (own: only the property the mutant was seeded for)"""
import json, os, subprocess, sys, time
ROOT = '/verif'
mode = sys.argv[1] if len(sys.argv) > 1 else 'own'
only = sys.argv[2:]
out = {}
res_path = f'{ROOT}/scratch/mutmatrix_{mode}.json'
if os.path.exists(res_path):
    out = json.load(open(res_path))
ALL = ['C01','C02','C03','C04','C05','C06','C07','C08','C09','C10','C11','C12','C13','C14','C15','C16','C17','C18','C20']
for d in sorted(os.listdir(f'{ROOT}/seeded')):
    if only and d not in only: continue
    p = f'{ROOT}/seeded/{d}/patch.diff'
    if not os.path.exists(p): continue
    prop = d.split('-')[0]
    props = [prop] if mode == 'own' else ALL
    assert subprocess.run('git -C /repo diff --quiet', shell=True).returncode == 0, '/repo dirty'
    assert subprocess.run(f'git -C /repo apply {p}', shell=True).returncode == 0, p
    try:
        for pr in props:
            key = f'{d}:{pr}'
            if key in out and not only: continue
            t = time.time()
            r = subprocess.run(f'./vf check {pr} --tier quick', shell=True, cwd=ROOT, capture_output=True, text=True)
            viol = [l for l in r.stdout.split('\n') if l.startswith('VIOLATION') or l.startswith('  what:')]
            out[key] = {'exit': r.returncode, 'what': [l.strip()[:200] for l in viol if l.startswith('  what')][:6], 'wall': round(time.time()-t,1),
                        'tail': r.stdout.strip().split('\n')[-1][:300]}
            print(key, 'exit', r.returncode, out[key]['what'][:2], flush=True)
            json.dump(out, open(res_path, 'w'), indent=1)
    finally:
        subprocess.run('git -C /repo checkout -- .', shell=True)
print('DONE')
