#!/usr/bin/env python3
"""Like mutmatrix.py but never touches /repo: the patch is applied to a scratch worktree and the checks run with VERIF_REPO pointing at it.
usage: mutmatrix2.py <seeded-dir-root> <own|all|C01,C02> [ids...]"""
import json, os, subprocess, sys, time
ROOT = '/verif'
root = sys.argv[1]
mode = sys.argv[2]
only = sys.argv[3:]
WT = os.environ.get('MM_WT', '/tmp/wtm')   # scratch worktree (use different ones for parallel streams)
res_path = f'{ROOT}/scratch/mutmatrix2_{os.path.basename(root.rstrip("/"))}_{mode.replace(",", "_")}{os.environ.get("MM_TAG", "")}.json'
out = json.load(open(res_path)) if os.path.exists(res_path) else {}
ALL = ['C01','C02','C03','C04','C05','C06','C07','C08','C09','C10','C11','C12','C13','C14','C15','C16','C17','C18','C20']
subprocess.run(f'git -C /repo worktree remove --force {WT}', shell=True, capture_output=True)
assert subprocess.run(f'git -C /repo worktree add -f --detach {WT} HEAD', shell=True, capture_output=True).returncode == 0
try:
    for d in sorted(os.listdir(root)):
        if only and d not in only: continue
        p = f'{root}/{d}/patch.diff'
        if not os.path.exists(p): continue
        prop = d.split('-')[0]
        props = [prop] if mode == 'own' else (ALL if mode == 'all' else mode.split(','))
        subprocess.run(f'git -C {WT} checkout -q -- . && git -C {WT} clean -fdq', shell=True)
        assert subprocess.run(f'git -C {WT} apply {p}', shell=True).returncode == 0, p
        for pr in props:
            key = f'{d}:{pr}'
            if key in out and not only: continue
            t = time.time()
            env = dict(os.environ, VERIF_REPO=WT, VERIF_EVIDENCE_DIR=WT + '_evidence')
            r = subprocess.run(f'./vf check {pr} --tier quick', shell=True, cwd=ROOT, capture_output=True, text=True, env=env)
            what = [l.strip()[:220] for l in r.stdout.split('\n') if l.startswith('  what')]
            out[key] = {'exit': r.returncode, 'what': what[:6], 'wall': round(time.time()-t, 1), 'tail': r.stdout.strip().split('\n')[-1][:300]}
            print(key, 'exit', r.returncode, [w[6:90] for w in what[:2]], flush=True)
            json.dump(out, open(res_path, 'w'), indent=1)
finally:
    subprocess.run(f'git -C /repo worktree remove --force {WT}', shell=True, capture_output=True)
print('DONE')
